#!/bin/bash
# One-time setup after a fresh restore: nothing is downloaded; pre-build the library variants and
# harnesses so that the first check does not pay for it (checks rebuild on their own anyway).
set -e
cd "$(dirname "$0")/.."
mkdir -p build/tmp replays evidence
for v in sim asan; do
  L=$(dirname "$(tools/build.sh $v)")
  make -s LIB="$L" VARIANT=$v REPO="${REPO:-/repo}" all -k -j8 || true
done
echo setup done
