// Public interface of the deterministic simulator (see DESIGN.md section 2).
// The library under test is compiled from $REPO and its references to pthread_*, sysconf, time,
// malloc..., abort are redirected (objcopy --redefine-syms) to the sim_* symbols defined here.
#pragma once
#include <stdint.h>
#include <stddef.h>

#ifdef __cplusplus
extern "C" {
#endif

enum { SIM_S0_SEQUENTIAL = 0, SIM_S1_PERMUTED = 1, SIM_S2_RANDOM = 2, SIM_S3_PCT = 3, SIM_S4_CONFLICT = 4, SIM_REPLAY = 5 };
enum { SIM_K_CREATE = 0, SIM_K_JOIN = 1, SIM_K_EXIT = 2, SIM_K_ACCESS = 3 };
enum { SIM_OK = 0, SIM_ABORTED = 1, SIM_CEILING = 2 };

typedef struct {
  int tid;        // deciding (running) thread, creation sequence number within the run (0 = caller)
  uint64_t tstep; // that thread's own step count at the decision
  int kind;       // SIM_K_*
  int next;       // thread chosen to run
} sim_switch;

typedef struct {
  int strategy;          // SIM_S*
  uint64_t sched_seed;   // seed of the schedule stream
  double preempt_p;      // S2: switch probability per instrumented access
  int pct_depth;         // S3: d
  uint64_t pct_horizon;  // S3: change points drawn in [0,horizon)
  int nproc;             // simulated processor count (<=0: pass through)
  int64_t clock0;        // simulated wall clock origin (seconds)
  int clock_step;        // seconds added per read
  uint64_t garbage_seed; // 0 = no garbage fill
  int garbage_mode;      // what fresh memory holds: 0/1 = NaN-payload garbage (default), 2 = zeros (a friendly allocator), 3 = large finite numbers
  int realloc_move_pct;  // 0..100: realloc moves the block with this probability
  uint64_t step_limit;   // 0 = none; exceeding it unwinds the guarded call with SIM_CEILING
  int detect_races;      // happens-before determinacy-race detector on/off
  const sim_switch *replay; // SIM_REPLAY: explicit switch list
  size_t n_replay;
} sim_cfg;

typedef struct {
  uint64_t steps;        // instrumented accesses (sim) / edges (asan) executed by library code
  uint64_t switches;     // decisions that switched threads
  uint64_t threads;      // simulated threads created (excluding the caller)
  int max_live;          // largest number of simultaneously live simulated threads (incl. caller)
  uint64_t races;        // determinacy races reported (dynamic count)
  int distinct_races;    // distinct (site,site) pairs
  uint64_t hist_hash;    // rolling hash of the event history (address-free)
  uint64_t sched_sig;    // hash of the ordered switch list
  uint64_t clock_reads;
  uint64_t allocs, alloc_failures, realloc_moves;
} sim_result;

typedef struct {
  char site_a[96], site_b[96]; // function+offset of the two accesses
  char object[96];             // symbol+offset of the memory, or "heap"/"stack/tls"
  int write_a, write_b;
  int tid_a, tid_b;
  uint64_t count;
} sim_race;

void sim_cfg_default(sim_cfg *c);
void sim_begin_run(const sim_cfg *c);
void sim_end_run(sim_result *r);
// run fn(arg) on the calling (main) simulated thread; returns SIM_OK, SIM_ABORTED (library called
// abort()) or SIM_CEILING (step limit exhausted).  Memory of an unwound call is leaked.
int sim_guard(void (*fn)(void *), void *arg);
// spawn / join a simulated thread from the harness (same scheduler as the library's threads)
int sim_spawn(void *(*fn)(void *), void *arg);
void sim_join(int handle);
// feed harness-level events into the history hash
void sim_hist(uint64_t v);
// switch list recorded in the last run (valid until next sim_begin_run)
size_t sim_switches(const sim_switch **out);
// races reported in the last run
size_t sim_races(const sim_race **out);
// S4 conflict set handling (program counters involved in reported races; sticky across runs)
void sim_conflicts_clear(void);
size_t sim_conflicts_count(void);
// allocation fault plan: the k-th allocation (1-based) after this call returns NULL; 0 = none
void sim_alloc_fail_at(uint64_t k);
uint64_t sim_alloc_count(void);
uint64_t sim_alloc_failures(void);   // injected allocation failures so far in this run   // allocations since sim_alloc_fail_at / begin_run
// step clock
uint64_t sim_steps_now(void);
void sim_set_step_limit(uint64_t limit); // absolute value of sim_steps_now() at which to unwind
// simulated threads that were still not joined when a guarded call returned (run total)
int sim_unjoined(void);
// which variant the linked library was built as: "sim" or "asan"
const char *sim_variant(void);
// set once: message printed by the library's abort path is expected on stdout/stderr; nothing to do.
// last abort reason
int sim_last_unwind(void);
// stats since process start
uint64_t sim_total_steps(void);

#ifdef __cplusplus
}
#endif
