#!/bin/bash
# Build the library under test from $REPO's *current working tree* into
# /verif/build/lib-<hash>/<variant>/libsci.a  (variant = sim | asan | plain).
# Prints the directory on stdout.  Safe to call concurrently (flock).
set -euo pipefail
VARIANT=${1:?variant}
REPO=${REPO:-/repo}
VERIF=$(cd "$(dirname "$0")/.." && pwd)
SRC=$REPO/src
[ -f "$SRC/CMakeLists.txt" ] || { echo "build.sh: no $SRC/CMakeLists.txt" >&2; exit 2; }

# source list as the shipped build defines it
SRCS=$(sed -n '/set(Scientific_C_SRCS/,/)/p' "$SRC/CMakeLists.txt" | tr '()' '  ' | tr -s ' \n' '\n' | grep '\.c$')
[ -n "$SRCS" ] || { echo "build.sh: empty source list" >&2; exit 2; }

case "$VARIANT" in
  sim)   CF="-O0 -g -fsanitize=thread -fno-omit-frame-pointer -fPIC -fsemantic-interposition" ;;  # -O0: every source-level access stays visible to the scheduler and the race detector (at -O1 clang inlines across exported functions and deletes write-only statics, hiding real races of the shipped -fPIC gcc build)
  asan)  CF="-O1 -g -fsanitize=address,undefined -fno-sanitize=nonnull-attribute,float-cast-overflow -fno-sanitize-recover=undefined -fsanitize-coverage=trace-pc-guard -fno-omit-frame-pointer" ;;
  plain) CF="-O1 -g" ;;
  *) echo "unknown variant $VARIANT" >&2; exit 2 ;;
esac
COMMON="-std=c99 -D_GNU_SOURCE -pthread -w"
REDEF=$VERIF/sim/redefine.syms

H=$( { cat "$0" "$REDEF"; echo "$COMMON"; for f in "$SRC"/*.c "$SRC"/*.h "$SRC"/scientificconfig.h.in "$REPO/CMakeLists.txt"; do echo "$f"; cat "$f"; done; } | sha1sum | cut -c1-16)
OUT=$VERIF/build/lib-$H/$VARIANT
mkdir -p "$VERIF/build"
exec 9>"$VERIF/build/.lock-$H-$VARIANT"
flock 9
if [ -f "$OUT/libsci.a" ] && [ -f "$OUT/.ok" ]; then echo "$OUT"; touch "$OUT/.ok" "$VERIF/build/lib-$H/.used"; exit 0; fi
rm -rf "$OUT"; mkdir -p "$OUT/obj" "$OUT/inc"

maj=$(sed -n 's/^set(VERSION_MAJOR \([0-9]*\)).*/\1/p' "$REPO/CMakeLists.txt"); min=$(sed -n 's/^set(VERSION_MINOR \([0-9]*\)).*/\1/p' "$REPO/CMakeLists.txt"); pat=$(sed -n 's/^set(VERSION_PATCH \([0-9]*\)).*/\1/p' "$REPO/CMakeLists.txt")
sed "s/@VERSION_MAJOR@/${maj:-0}/;s/@VERSION_MINOR@/${min:-0}/;s/@VERSION_PATCH@/${pat:-0}/" "$SRC/scientificconfig.h.in" > "$OUT/inc/scientificconfig.h"

compile_one() {
  f=$1
  o="$OUT/obj/${f%.c}.o"
  flags="$CF"
  # datasets.c is 1.4 MB of literal setMatrixValue calls: >20 min under sanitizers; it only holds data loaders
  [ "$f" = datasets.c ] && flags="-O0"
  clang $COMMON $flags -DLIBSCIENTIFIC_VERIF -I"$SRC" -I"$OUT/inc" -c "$SRC/$f" -o "$o" 2>"$o.err" || { cat "$o.err" >&2; exit 1; }
  objcopy --redefine-syms="$REDEF" "$o"
}
export -f compile_one; export OUT CF COMMON SRC REDEF
echo "$SRCS" | timeout 900 xargs -P 16 -I{} bash -c 'compile_one {}' >&2 || { echo "build.sh: compile failed" >&2; exit 2; }
ar rcs "$OUT/libsci.a" "$OUT"/obj/*.o
# library-object undefined symbols (for the synchronisation whitelist)
nm -u "$OUT"/obj/*.o | awk '/ U /{print $2}' | sort -u > "$OUT/undefined.txt"
touch "$OUT/.ok"
# garbage-collect library builds: keep the 3 most recently used and anything used in the last 45 minutes
touch "$VERIF/build/lib-$H/.used"
ls -t "$VERIF"/build/lib-*/.used 2>/dev/null | tail -n +4 | while read u; do
  if [ -n "$(find "$u" -mmin +45 2>/dev/null)" ]; then rm -rf "$(dirname "$u")"; fi
done
echo "$OUT"
