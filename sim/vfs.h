// Simulated disk (SQLite VFS shim) and forked-operation helper; see vfs.cpp.
#pragma once
#include <stdint.h>
#ifdef __cplusplus
extern "C" {
#endif
enum { SIMVFS_NONE = 0, SIMVFS_IOERR = 1, SIMVFS_FULL = 2, SIMVFS_KILL = 3, SIMVFS_SHORT = 4 };
#define SIMVFS_KILL_EXIT 99
#define SIMVFS_FIRED_EXIT 98   /* the forked operation returned normally after its injected error had fired */
typedef struct { uint64_t calls_total, opens, deletes, reads, writes, truncates, syncs, fired; } simvfs_stats;
void simvfs_install(void);
// start counting calls for one operation; the fault (if any) fires at the at_call-th counted call (1-based)
void simvfs_begin_op(int kind, uint64_t at_call, int torn);
uint64_t simvfs_calls(void);
void simvfs_end_op(void);
const simvfs_stats *simvfs_get_stats(void);
void simvfs_reset_stats(void);
int sim_fork_run(void (*fn)(void *), void *arg);
#ifdef __cplusplus
}
#endif
