// Pristine reference server.  A process that has never called the library is forked at harness start ("zygote").  For every
// query it forks a grandchild that evaluates a harness callback on the query text and returns a 64-bit digest.  The digest
// therefore comes from a process image in which NO earlier library call has happened -- the reference against which "the
// result does not depend on what ran before in the same process" is decided.  (No library headers here: sys/wait.h clashes
// with the library's `ssignal` typedef.)
#include <stdint.h>
#include <stdio.h>
#include <stdlib.h>
#include <string.h>
#include <unistd.h>
#include <sys/types.h>
#include <sys/wait.h>
#include <sys/socket.h>
#include <sys/prctl.h>
#include <signal.h>

extern "C" {

static int g_sock = -1;
static pid_t g_zygote = -1;

static bool read_all(int fd, void *buf, size_t n) { char *p = (char *)buf; while (n) { ssize_t r = read(fd, p, n); if (r <= 0) return false; p += r; n -= (size_t)r; } return true; }
static bool write_all(int fd, const void *buf, size_t n) { const char *p = (const char *)buf; while (n) { ssize_t r = write(fd, p, n); if (r <= 0) return false; p += r; n -= (size_t)r; } return true; }

// must be called before the first library call of the process; fn runs in a fresh grandchild per query
int pristine_start(uint64_t (*fn)(const char *text)) {
  int sv[2];
  if (socketpair(AF_UNIX, SOCK_STREAM, 0, sv) != 0) return -1;
  fflush(stdout); fflush(stderr);
  pid_t z = fork();
  if (z < 0) return -1;
  if (z == 0) {
    close(sv[0]);
    prctl(PR_SET_PDEATHSIG, SIGKILL);
    for (;;) {
      uint32_t len;
      if (!read_all(sv[1], &len, 4)) _exit(0);
      char *text = (char *)malloc(len + 1);
      if (!read_all(sv[1], text, len)) _exit(0);
      text[len] = 0;
      int pfd[2];
      uint64_t reply[2] = {0, 0};  // status (1 = ok), digest
      if (pipe(pfd) == 0) {
        pid_t g = fork();
        if (g == 0) {
          close(pfd[0]);
          uint64_t h = fn(text);
          uint64_t out[2] = {1, h};
          write_all(pfd[1], out, sizeof out);
          _exit(0);
        }
        close(pfd[1]);
        if (g > 0) { if (!read_all(pfd[0], reply, sizeof reply)) reply[0] = 0; int st; waitpid(g, &st, 0); }
        close(pfd[0]);
      }
      free(text);
      if (!write_all(sv[1], reply, sizeof reply)) _exit(0);
    }
  }
  close(sv[1]);
  g_sock = sv[0];
  g_zygote = z;
  return 0;
}

// returns 1 and the digest on success, 0 when the reference could not be computed (grandchild died, no zygote)
int pristine_query(const char *text, uint64_t *digest) {
  if (g_sock < 0) return 0;
  uint32_t len = (uint32_t)strlen(text);
  uint64_t reply[2];
  if (!write_all(g_sock, &len, 4) || !write_all(g_sock, text, len) || !read_all(g_sock, reply, sizeof reply)) { g_sock = -1; return 0; }
  if (reply[0] != 1) return 0;
  *digest = reply[1];
  return 1;
}

void pristine_stop(void) {
  if (g_sock >= 0) { close(g_sock); g_sock = -1; }
  if (g_zygote > 0) { int st; waitpid(g_zygote, &st, 0); g_zygote = -1; }
}
}
