// C01 (PCA is an exact orthogonal decomposition) and C02 (its components are the principal axes),
// decided along the configuration/schedule axis: simulated processor count seen by the MT kernels,
// worker schedules, garbage-filling allocator.  See DESIGN.md section 3.
#include "lib.hpp"
// the documented NIPALS convergence criterion of PCA (pca.h at the pinned commit); deliberately NOT taken from the header of
// the tree under test: a tree that loosens the criterion must not loosen the oracle with it
#define DOC_PCA_CRITERION 1e-10
#include "linalg.hpp"
#include "nipals_tol.hpp"
#include <algorithm>

struct PCase { Mat X; int scaling, npc, nproc, transform; double rho_gen; };
struct POut { Mat scores, loadings, E, recon, pscores, resid; std::vector<double> varexp, avg, scale; };
struct PCall { const Mat *X; int scaling, npc; POut *o; bool extras; bool reuse = false; };

static void call_pca(void *a_) {
  PCall &a = *(PCall *)a_;
  matrix *x = to_matrix(*a.X); PCAMODEL *m; NewPCAModel(&m);
  PCA(x, a.scaling, (size_t)a.npc, m, NULL);
  POut &o = *a.o;
  o.scores = from_matrix(m->scores); o.loadings = from_matrix(m->loadings); o.varexp = from_dvector(m->varexp); o.avg = from_dvector(m->colaverage); o.scale = from_dvector(m->colscaling);
  if (a.extras) {
    // output arguments are either fresh or (reuse != 0) already hold the result of an earlier call with fewer components: callers do
    // rebuild with 1..A components into one matrix
    size_t fewer = a.npc > 1 ? (size_t)a.npc - 1 : 1;
    matrix *rec; initMatrix(&rec);
    if (a.reuse) PCAIndVarPredictor(m->scores, m->loadings, m->colaverage, m->colscaling, fewer, rec);
    PCAIndVarPredictor(m->scores, m->loadings, m->colaverage, m->colscaling, (size_t)a.npc, rec);
    o.recon = from_matrix(rec); DelMatrix(&rec);
    matrix *ps; initMatrix(&ps);
    if (a.reuse) PCAScorePredictor(x, m, fewer, ps);
    PCAScorePredictor(x, m, (size_t)a.npc, ps);
    o.pscores = from_matrix(ps); DelMatrix(&ps);
    matrix *rm; initMatrix(&rm);
    if (a.reuse) GetResidualMatrix(x, m, fewer, rm);
    GetResidualMatrix(x, m, (size_t)a.npc, rm);
    o.resid = from_matrix(rm); DelMatrix(&rm);
  }
  DelPCAModel(&m); DelMatrix(&x);
}
struct PreArg { const Mat *X; int scaling; Mat E; };
static void call_pre(void *a_) {
  PreArg &a = *(PreArg *)a_;
  matrix *x = to_matrix(*a.X), *e; NewMatrix(&e, x->row, x->col);
  dvector *avg, *sc; initDVector(&avg); initDVector(&sc);
  MatrixPreprocess(x, a.scaling, avg, sc, e);
  a.E = from_matrix(e);
  DelDVector(&avg); DelDVector(&sc); DelMatrix(&e); DelMatrix(&x);
}

struct HPca : Harness {
  const char *engine() const override { return "h_pca"; }

  Plan generate(uint64_t seed) override {
    Plan p;
    Prng wr(seed, PURPOSE_WORKLOAD), mr(seed, PURPOSE_MACHINE), sr(seed, PURPOSE_SCHEDULE);
    gen_machine(p, mr, sr, true, 24);
    if (p.geti("sched.strategy") == 4) p.seti("sched.strategy", 2);
    int n, pp;
    uint64_t r = wr.below(100);
    bool quick = tier == "quick";
    if (r < (quick ? 75u : 60u)) { n = (int)wr.range(2, 12); pp = (int)wr.range(1, 6); }
    else if (r < (quick ? 97u : 90u)) { n = (int)wr.range(2, 30); pp = (int)wr.range(1, 12); }
    else { n = (int)wr.range(10, 60); pp = (int)wr.range(1, 25); }
    if (wr.chance(0.012)) { n = (int)wr.range(100, 300); pp = (int)wr.range(20, 60); p.seti("large", 1); }  // a size threshold in the kernels must not hide a path
    p.seti("rows", n); p.seti("cols", pp);
    p.seti("scaling", (int)wr.range(-1, 5));
    p.setd("npc_frac", wr.unit());
    // processor counts: the listed ones, and deliberately one above the row count / column count
    uint64_t q = wr.below(10);
    if (q == 0) p.seti("machine.nproc", n + 1); else if (q == 1) p.seti("machine.nproc", pp + 1);
    if (p.geti("machine.nproc") > 24) p.seti("machine.nproc", 24);
    p.seti("const_cols", wr.chance(0.25) ? (int)wr.range(1, std::max(1, pp / 3)) : 0);
    p.seti("transform", (int)wr.below(3));  // C02: 0 permute objects, 1 permute variables, 2 rotate
    p.setd("rho", wr.uniform(0.3, 0.85));
    p.setd("scale_exp", wr.chance(0.5) ? 1.0 : wr.uniform(-2.0, 3.0));
    // C02 only: the documented criterion is relative, so the unit of the data must not matter.  Options 0 and -1 keep the unit; very
    // small and very large units are drawn for them (the other options divide by a column statistic and are scale free)
    if (prop == "C02" && p.geti("scaling") <= 0 && wr.chance(0.5)) p.setd("scale_exp", wr.chance(0.7) ? wr.uniform(-6.0, -2.0) : wr.uniform(3.0, 6.0));
    p.seti("axis_aligned", wr.chance(0.2) ? 1 : 0);
    if (prop == "C02" && wr.chance(0.12)) p.seti("far_offsets", 1);
    if (prop == "C01" && wr.chance(0.5)) p.seti("reuse_outputs", 1);  // overall magnitude of the singular values
    p.setu("data.seed", wr.next() >> 4);
    return p;
  }

  Mat make_data(const Plan &p, Prng &dr) {
    int n = (int)p.geti("rows"), pp = (int)p.geti("cols"), scaling = (int)p.geti("scaling");
    Mat X(n, std::vector<double>(pp));
    if (prop == "C02") {
      // U diag(s) V' + offsets with singular-value ratios <= rho
      int r = std::min(n, pp);
      LMat U = lrandom_orthogonal(n, dr), V = lrandom_orthogonal(pp, dr);
      if (p.geti("axis_aligned", 0)) {
        // the variables ARE the principal axes, in random order and with random signs (orthogonal designs, score matrices of an
        // earlier decomposition): V is a signed permutation matrix, which is as orthogonal as any other
        std::vector<int> perm(pp); for (int j = 0; j < pp; j++) perm[j] = j; for (int j = pp - 1; j > 0; j--) std::swap(perm[j], perm[dr.below(j + 1)]);
        V = lzeros(pp, pp); for (int j = 0; j < pp; j++) V[perm[j]][j] = dr.chance(0.5) ? 1 : -1;
      }
      double rho = sqrt(p.getd("rho", 0.7));  // eigenvalue ratio rho <=> singular value ratio sqrt(rho)
      std::vector<LD> s(r); LD cur = powl(10.0L, (LD)p.getd("scale_exp", 1.0)) * (1 + dr.unit() * 5);
      for (int k = 0; k < r; k++) { s[k] = cur; cur *= rho * dr.uniform(0.6, 1.0); }
      for (int i = 0; i < n; i++) for (int j = 0; j < pp; j++) { LD v = 0; for (int k = 0; k < r; k++) v += U[i][k] * s[k] * V[j][k]; X[i][j] = (double)v; }
      double se = p.getd("scale_exp", 1.0), ounit = (scaling == -1 && (se < -2 || se > 3)) ? pow(10.0, se - 1) : 1.0;  // without centring the offsets are data: keep them in the unit of the data
      // "far" columns (plan key far_offsets): location up to 1e8 times the spread (time stamps, absolute temperatures, masses): centring
      // and scaling must cope; the oracle's tolerance carries the corresponding rounding term
      double far = p.geti("far_offsets", 0) && scaling >= 0 ? pow(10.0, dr.uniform(3.0, 8.0)) * (double)s[0] / sqrt((double)n) : 0.0;
      for (int j = 0; j < pp; j++) { double off = dr.uniform(-20, 20) * ounit; if (scaling == 5 && fabs(off) < 1) off = off < 0 ? -1.5 : 1.5; if (far > 0 && dr.chance(0.5)) off = (dr.chance(0.5) ? 1 : -1) * far * dr.uniform(0.3, 1.0); for (int i = 0; i < n; i++) X[i][j] += off; }
      return X;
    }
    for (int j = 0; j < pp; j++) {
      double spread = pow(10.0, dr.uniform(-1.0, 3.0));   // column sdev well above the 0.02 floor of the property
      double off = (dr.chance(0.5) ? 1 : -1) * pow(10.0, dr.uniform(-2, 4));
      if (scaling == 5 && fabs(off) < 0.05) off = off < 0 ? -0.07 : 0.07;  // level scaling: keep the mean out of the band where fit/apply zero guards disagree
      for (int i = 0; i < n; i++) X[i][j] = off + spread * dr.normal();
    }
    if (scaling == 5) for (int j = 0; j < pp; j++) {  // empirical mean outside (-0.05, 0.05)
      double m = 0; for (int i = 0; i < n; i++) m += X[i][j]; m /= n;
      if (fabs(m) < 0.05) for (int i = 0; i < n; i++) X[i][j] += (m < 0 ? -1.0 : 1.0);
    }
    // the property's input domain: realised column spread >= 0.02 (or exactly 0); keep sdev and range above 0.05 so that the
    // fit-time (1e-3) and apply-time (1e-2) zero-scale guards of the preprocessing (C10, not claimed) never disagree
    for (int j = 0; j < pp; j++) {
      double m = 0, v = 0; for (int i = 0; i < n; i++) m += X[i][j]; m /= n; for (int i = 0; i < n; i++) v += (X[i][j] - m) * (X[i][j] - m);
      double sd = sqrt(v / std::max(1, n - 1));
      if (sd < 0.05) { double f = sd > 0 ? 0.2 / sd : 0; for (int i = 0; i < n; i++) X[i][j] = sd > 0 ? m + (X[i][j] - m) * f : m + 0.2 * (i % 2 ? 1 : -1) * (1 + 0.1 * i); }
    }
    int cc = (int)p.geti("const_cols");
    for (int k = 0; k < cc && k < pp; k++) { int j = (int)dr.below(pp); double v = dr.chance(0.3) ? 0.0 : dr.uniform(-50, 50); if (scaling == 5 && fabs(v) < 0.05) v = 2.0; for (int i = 0; i < n; i++) X[i][j] = v; }
    return X;
  }

  struct Fit { int rc; POut out; sim_result sr; std::string race_cls, race_txt, switches; int unjoined; };
  Fit fit(const Plan &p, const Mat &X, int scaling, int npc, int nproc, int strategy_override, bool extras) {
    sim_cfg sc; std::vector<sim_switch> rs; cfg_from_plan(p, sc, rs);
    if (strategy_override >= 0) { sc.strategy = strategy_override; sc.replay = nullptr; sc.n_replay = 0; }
    sc.nproc = nproc; sc.step_limit = (tier == "quick") ? 100000000ULL : 1000000000ULL;
    sc.garbage_mode = strategy_override == SIM_S0_SEQUENTIAL ? (nproc == 1 ? 2 : 1) : 3;  // zeros / NaN garbage / huge finite garbage in the three fits
    sim_begin_run(&sc);
    Fit f; PCall c{&X, scaling, npc, &f.out, extras}; c.reuse = p.geti("reuse_outputs", 0) != 0;
    f.rc = sim_guard(call_pca, &c);
    f.unjoined = sim_unjoined();
    sim_end_run(&f.sr);
    if (f.sr.races && races_are_verdicts()) { f.race_cls = race_class(); f.race_txt = races_text(); }
    const sim_switch *sw; size_t n = sim_switches(&sw); if (n && n < 6000) f.switches = switches_text(sw, n);
    return f;
  }

  Outcome execute(const Plan &p) override {
    Outcome o;
    Prng dr(p.getu("data.seed"), PURPOSE_WORKLOAD);
    Mat X = make_data(p, dr);
    if (p.has("x.rows")) {  // explicit data (stored reproducers of known findings must not depend on the generator): rows separated by spaces, cells by commas, C99 hex floats
      X.clear(); for (auto &row : p.list("x.rows")) { std::vector<double> r; const char *q = row.c_str(); while (*q) { char *e; double v = strtod(q, &e); if (e == q) break; r.push_back(v); q = *e == ',' ? e + 1 : e; } if (!r.empty()) X.push_back(r); }
      dr.next();
    }
    if (getenv("HPCA_DUMPX")) { fprintf(stderr, "x.rows="); for (size_t i = 0; i < X.size(); i++) { for (size_t j = 0; j < X[i].size(); j++) fprintf(stderr, "%s%a", j ? "," : (i ? " " : ""), X[i][j]); } fprintf(stderr, "\n"); }
    int n = (int)X.size(), pp = (int)X[0].size(), scaling = (int)p.geti("scaling"), nproc = (int)p.geti("machine.nproc", 1);
    int plan_strategy = p.has("sched.switches") ? SIM_REPLAY : (int)p.geti("sched.strategy");
    // preprocessed matrix and its numerical rank (library preprocessing is C10's business and trusted here)
    PreArg pa{&X, scaling, {}};
    { sim_cfg sc; sim_cfg_default(&sc); sc.detect_races = 0; sc.nproc = 1; sim_begin_run(&sc); sim_guard(call_pre, &pa); sim_end_run(nullptr); }
    LMat E = to_l(pa.E);
    LD gap = 0; size_t rank = lrank(E, 1e-9L, &gap);
    char cfg[200]; snprintf(cfg, sizeof cfg, "%s %dx%d scaling=%d nproc=%d", prop.c_str(), n, pp, scaling, nproc);
    o.cfg = cfg;
    Hasher h;
    if (rank == 0 || !(gap > 1e4L || rank == (size_t)std::min(n, pp))) { o.counters["skipped.rank_zero_or_ambiguous"]++; o.hash = 7; return o; }
    int npc = 1 + (int)(p.getd("npc_frac") * rank); if (npc > (int)rank) npc = (int)rank;
    if (p.geti("large", 0) && npc > 3) npc = 3;  // large operands are there for size-dependent paths of the kernels, not for long models
    if (p.has("npc")) npc = std::min((int)p.geti("npc"), (int)rank);
    o.cfg += " npc=" + std::to_string(npc) + "/" + std::to_string(rank);

    Fit A = fit(p, X, scaling, npc, 1, SIM_S0_SEQUENTIAL, false);          // one processor: sequential kernels
    Fit C = fit(p, X, scaling, npc, nproc, SIM_S0_SEQUENTIAL, false);      // simulated processor count, canonical worker order
    Fit B = fit(p, X, scaling, npc, nproc, -1, true);                     // same, explored schedule
    for (Fit *f : {&A, &C, &B}) fill_outcome_from_sim(o, f->sr, plan_strategy);
    o.sched_sig = B.sr.sched_sig; o.nontrivial = B.sr.max_live >= 2;
    o.counters["nproc." + std::to_string(nproc)]++;
    o.counters["scaling." + std::to_string(scaling)]++;
    if (p.geti("reuse_outputs", 0)) o.counters["probe.outputs_reused"]++;
    if (p.geti("large", 0)) o.counters["probe.large_operand"]++;
    o.counters[n < pp ? "shape.wide" : n == pp ? "shape.square" : "shape.tall"]++;
    if (nproc > n) o.counters["probe.nproc_gt_rows"]++;
    if (nproc > pp) o.counters["probe.nproc_gt_cols"]++;
    h.u64(A.sr.hist_hash); h.u64(C.sr.hist_hash); h.u64(B.sr.hist_hash); hash_mat(h, B.out.scores); hash_mat(h, B.out.loadings); hash_vec(h, B.out.varexp);
    o.hash = h.h;
    if (A.rc == SIM_CEILING || B.rc == SIM_CEILING || C.rc == SIM_CEILING) { o.counters["skipped.step_ceiling"]++; return o; }
    if (A.rc || B.rc || C.rc) { o.fail("abort", "PCA aborted on a valid call"); return o; }
    if (B.unjoined || C.unjoined) o.fail("unjoined-thread", "PCA: a kernel worker was not joined");
    for (Fit *f : {&C, &B}) if (!f->race_cls.empty()) { o.fail(f->race_cls, "PCA kernels: workers overlap: " + f->race_txt); break; }
    // schedule independence (bitwise) and processor-count independence (1e-10)
    auto same = [&](const Mat &a, const Mat &b, bool bits, double rel, const char *what, const char *cls) {
      if (a.size() != b.size()) { o.fail(cls, std::string(what) + ": shape differs"); return; }
      double scale = 0; for (auto &r : a) for (double v : r) scale = fmax(scale, fabs(v));
      for (size_t i = 0; i < a.size(); i++) for (size_t j = 0; j < a[i].size(); j++) {
        bool ok = bits ? same_bits(a[i][j], b[i][j]) : fabs(a[i][j] - b[i][j]) <= rel * (scale + 1e-300);
        if (!ok) { char m[240]; snprintf(m, sizeof m, "%s[%zu][%zu]: %.17g vs %.17g (nproc=%d)", what, i, j, a[i][j], b[i][j], nproc); o.fail(cls, m); return; }
      }
    };
    same(B.out.scores, C.out.scores, true, 0, "scores differ between schedules", "schedule-divergence");
    same(B.out.loadings, C.out.loadings, true, 0, "loadings differ between schedules", "schedule-divergence");
    same(Mat{B.out.varexp}, Mat{C.out.varexp}, true, 0, "varexp differs between schedules", "schedule-divergence");
    same(C.out.scores, A.out.scores, false, 1e-10, "scores differ between processor counts", "nproc-divergence");
    same(C.out.loadings, A.out.loadings, false, 1e-10, "loadings differ between processor counts", "nproc-divergence");
    if (o.violation) { if (!p.has("sched.switches")) o.switch_list = B.switches; return o; }

    const POut &M = B.out;
    if (M.scores.size() != (size_t)n || M.scores[0].size() != (size_t)npc || M.loadings.size() != (size_t)pp || M.varexp.size() != (size_t)npc) { o.fail("shape", "PCA: model fields have the wrong shape"); return o; }
    LD en = lfro(E);
    std::vector<LVec> P(npc, LVec(pp)), T(npc, LVec(n));
    for (int k = 0; k < npc; k++) { for (int j = 0; j < pp; j++) P[k][j] = M.loadings[j][k]; for (int i = 0; i < n; i++) T[k][i] = M.scores[i][k]; }
    if (prop != "C02") {
      // ---- C01: orthonormal loadings, scores = successive projections, orthogonal residual
      for (int k = 0; k < npc && !o.violation; k++) for (int l = k; l < npc; l++) { LD d = ldot(P[k], P[l]); if (fabsl(d - (k == l ? 1 : 0)) > 1e-8L) { char m[200]; snprintf(m, sizeof m, "loadings %d and %d: inner product %.3Lg (nproc=%d, scaling=%d)", k, l, d, nproc, scaling); o.fail("loadings-not-orthonormal", m); break; } }
      LMat Ek = E;
      for (int k = 0; k < npc && !o.violation; k++) {
        for (int i = 0; i < n; i++) { LD s = ldot(Ek[i], P[k]); if (fabsl(s - T[k][i]) > 1e-8L * (en + 1e-300L)) { char m[240]; snprintf(m, sizeof m, "score[%d][%d]=%.12Lg but deflated data x loading = %.12Lg (nproc=%d)", i, k, T[k][i], s, nproc); o.fail("score-not-projection", m); break; } }
        for (int i = 0; i < n; i++) for (int j = 0; j < pp; j++) Ek[i][j] -= T[k][i] * P[k][j];
      }
      for (int k = 0; k < npc && !o.violation; k++) { LD s = 0; for (int i = 0; i < n; i++) { LD d = ldot(Ek[i], P[k]); s += d * d; } if (sqrtl(s) > 1e-8L * (en + 1e-300L)) { char m[200]; snprintf(m, sizeof m, "residual is not orthogonal to loading %d: |R p| = %.3Lg, |E| = %.3Lg", k, sqrtl(s), en); o.fail("residual-not-orthogonal", m); } }
      // the library's own residual accessor must return that residual (and hence be orthogonal to every extracted loading)
      if (!o.violation && M.resid.size() == (size_t)n && M.resid[0].size() == (size_t)pp) {
        for (int i = 0; i < n && !o.violation; i++) for (int j = 0; j < pp; j++) if (fabsl((LD)M.resid[i][j] - Ek[i][j]) > 1e-8L * (en + 1e-300L)) { char m[240]; snprintf(m, sizeof m, "GetResidualMatrix[%d][%d]=%.12g but preprocessed data - scores x loadings^T = %.12Lg (scaling %d, %d components)", i, j, M.resid[i][j], Ek[i][j], scaling, npc); o.fail("residual-accessor", m); break; }
      } else if (!o.violation) o.fail("shape", "GetResidualMatrix: wrong shape");
      // variance bookkeeping, tolerance derived from the documented criterion (see DESIGN.md)
      double tau = 200.0 * npc * sqrt((double)n * DOC_PCA_CRITERION), sum = 0;
      std::string close_order_msg;
      for (int k = 0; k < npc && !o.violation; k++) {
        sum += M.varexp[k];
        if (!(M.varexp[k] >= -tau)) o.fail("variance-bookkeeping", "explained variance is negative or NaN");
        if (k && M.varexp[k] > M.varexp[k - 1] + tau) {
          // two components in the wrong order.  When their variances are within 5 % of each other this is the NIPALS iteration having
          // stopped at the unstable fixed point (start column nearly orthogonal to the slightly larger axis): its own class, so that a
          // listed finding about exactly this does not cover any other bookkeeping error
          double rel = (M.varexp[k] - M.varexp[k - 1]) / M.varexp[k];
          char m[240]; snprintf(m, sizeof m, "explained variance increases: %.6g after %.6g (components %d and %d, relative excess %.3g)", M.varexp[k], M.varexp[k - 1], k - 1, k, rel);
          if (rel <= 0.05) { if (close_order_msg.empty()) close_order_msg = m; }   // reported only if every other clause holds (below)
          else o.fail("variance-bookkeeping", m);
        }
      }
      if (!o.violation && sum > 100 + tau) { char m[160]; snprintf(m, sizeof m, "explained variances sum to %.8g %%", sum); o.fail("variance-bookkeeping", m); }
      if (!o.violation && npc == (int)rank) {
        o.counters["probe.full_rank"]++;
        if (fabs(sum - 100) > tau) { char m[160]; snprintf(m, sizeof m, "all %d components taken but explained variances sum to %.8g %%", npc, sum); o.fail("variance-bookkeeping", m); }
        double xs = 0; for (auto &r : X) for (double v : r) xs = fmax(xs, fabs(v));
        for (int i = 0; i < n && !o.violation; i++) for (int j = 0; j < pp; j++) if (fabs(M.recon[i][j] - X[i][j]) > 1e-8 * (xs + 1e-300)) { char m[240]; snprintf(m, sizeof m, "PCAIndVarPredictor at full rank gives x[%d][%d]=%.12g, original %.12g (scaling %d)", i, j, M.recon[i][j], X[i][j], scaling); o.fail("reconstruction", m); break; }
      }
      for (int i = 0; i < n && !o.violation; i++) for (int k = 0; k < npc; k++) if (fabsl((LD)M.pscores[i][k] - T[k][i]) > 1e-8L * (en + 1e-300L)) { char m[240]; snprintf(m, sizeof m, "PCAScorePredictor on the training matrix gives score[%d][%d]=%.12g, model has %.12Lg (scaling %d)", i, k, M.pscores[i][k], T[k][i], scaling); o.fail("projection-of-training-data", m); break; }
      if (!o.violation && !close_order_msg.empty()) o.fail("order-of-close-components", close_order_msg);
      o.counters["probe.identities_checked"]++;
    } else {
      // ---- C02: spectral correctness against a Jacobi eigen-decomposition of E'E, and equivariance
      LMat G = lgram(E); LVec ev; LMat V; ljacobi(G, ev, V);
      LD tr = 0; for (LD v : ev) tr += v;
      if (tr <= 0) { o.counters["skipped.no_variance"]++; return o; }
      // conditioning of the centring: a column at location m with spread sd keeps only eps*|m|/sd relative accuracy in E
      double kappa = 0; if (scaling >= 0) for (int j = 0; j < pp; j++) { double m = 0, v = 0; for (int i = 0; i < n; i++) m += X[i][j]; m /= n; for (int i = 0; i < n; i++) v += (X[i][j] - m) * (X[i][j] - m); double sd = sqrt(v / std::max(1, n - 1)); if (sd > 0) kappa = fmax(kappa, fabs(m) / sd); }
      if (p.geti("far_offsets", 0)) o.counters["probe.far_offsets"]++;
      NipalsTol tol = nipals_tolerances(ev, npc, n, DOC_PCA_CRITERION, 10.0, pp, 2.220446049250313e-16 * kappa);   // see oracle/nipals_tol.hpp for the derivation
      int kmax = tol.kmax;
      if (kmax < npc) o.counters["skipped.components_undecidable"] += npc - kmax;
      if (kmax == 0) { o.counters["skipped.spectrum_not_separated"]++; return o; }
      if (getenv("HPCA_DEBUG")) { for (int k = 0; k < npc; k++) { LVec vk = lcol(V, k); LD c = fabsl(ldot(P[k], vk)); fprintf(stderr, "k=%d ev=%.6Lg ratio=%.4Lg varexp=%.8g want=%.8Lg sin=%.3Lg allowed=%.3g evrel=%.3g kmax=%d\n", k, ev[k], k + 1 < (int)ev.size() ? ev[k + 1] / ev[k] : 0.0L, M.varexp[k], ev[k] / tr * 100, sqrtl(fmaxl(0, 1 - c * c)), tol.sin_angle[k], tol.eval_rel[k], kmax); } }
      for (int k = 0; k < kmax && !o.violation; k++) {
        LVec vk = lcol(V, k);
        LD c = fabsl(ldot(P[k], vk)), sn = sqrtl(fmaxl(0, 1 - c * c));
        if (!(c == c)) { char m[160]; snprintf(m, sizeof m, "loading %d of %d requested (rank %zu) is not finite", k, npc, rank); o.fail("non-finite-component", m); break; }
        { uint64_t pm = (uint64_t)(1000.0L * sn / tol.sin_angle[k]); if (pm > o.counters["max.permille_of_angle_tolerance_used"]) o.counters["max.permille_of_angle_tolerance_used"] = pm; }
        if (sn > tol.sin_angle[k]) { char m[260]; snprintf(m, sizeof m, "loading %d is not the %d-th principal axis: sin(angle) = %.3Lg, the documented criterion allows %.3g (eigenvalue ratio to the next %.3Lg)", k, k + 1, sn, tol.sin_angle[k], k + 1 < (int)ev.size() ? ev[k + 1] / ev[k] : 0.0L); o.fail("not-principal-axis", m); }
        LD want = ev[k] / tr * 100;
        if (!o.violation && fabsl((LD)M.varexp[k] - want) > tol.eval_rel[k] * want + 1e-9L) { char m[240]; snprintf(m, sizeof m, "explained variance %d is %.10g, eigenvalue/trace gives %.10Lg (allowed relative error %.3g)", k, M.varexp[k], want, tol.eval_rel[k]); o.fail("wrong-eigenvalue", m); }
      }
      o.counters["probe.spectrum_checked"]++;
      if (!o.violation) {
        int tf = (int)p.geti("transform");
        if (tf == 2 && scaling > 0) tf = (int)(p.getu("data.seed") % 2);  // rotation only of unscaled data
        Mat X2 = X; std::vector<int> perm;
        LMat Q;
        if (tf == 0) { perm.resize(n); for (int i = 0; i < n; i++) perm[i] = i; for (int i = n - 1; i > 0; i--) std::swap(perm[i], perm[dr.below(i + 1)]); for (int i = 0; i < n; i++) X2[i] = X[perm[i]]; }
        else if (tf == 1) { perm.resize(pp); for (int j = 0; j < pp; j++) perm[j] = j; for (int j = pp - 1; j > 0; j--) std::swap(perm[j], perm[dr.below(j + 1)]); for (int i = 0; i < n; i++) for (int j = 0; j < pp; j++) X2[i][j] = X[i][perm[j]]; }
        else {
          Q = lrandom_orthogonal(pp, dr);
          if (dr.chance(0.4)) {  // rotate the data into its own principal axes, columns in random order: X Q has the axes as variables
            std::vector<int> pm(pp); for (int j = 0; j < pp; j++) pm[j] = j; for (int j = pp - 1; j > 0; j--) std::swap(pm[j], pm[dr.below(j + 1)]);
            for (int i = 0; i < pp; i++) for (int j = 0; j < pp; j++) Q[i][j] = V[i][pm[j]];
            o.counters["probe.rotation_into_own_axes"]++;
          } for (int i = 0; i < n; i++) for (int j = 0; j < pp; j++) { LD v = 0; for (int q = 0; q < pp; q++) v += (LD)X[i][q] * Q[q][j]; X2[i][j] = (double)v; } }
        Fit F = fit(p, X2, scaling, npc, nproc, SIM_S0_SEQUENTIAL, false);
        fill_outcome_from_sim(o, F.sr, plan_strategy);
        if (F.rc == SIM_OK && F.out.scores.size() == (size_t)n) {
          for (int k = 0; k < kmax && !o.violation; k++) {
            double tolk = 3 * tol.sin_angle[k] + 1e-8;
            LVec p2(pp), t2(n), pe(pp), te(n);
            for (int j = 0; j < pp; j++) p2[j] = F.out.loadings[j][k];
            for (int i = 0; i < n; i++) t2[i] = F.out.scores[i][k];
            if (tf == 0) { pe = P[k]; for (int i = 0; i < n; i++) te[i] = T[k][perm[i]]; }
            else if (tf == 1) { for (int j = 0; j < pp; j++) pe[j] = P[k][perm[j]]; te = T[k]; }
            else { for (int j = 0; j < pp; j++) { LD v = 0; for (int q = 0; q < pp; q++) v += Q[q][j] * P[k][q]; pe[j] = v; } te = T[k]; }
            LD sgn = ldot(p2, pe) < 0 ? -1 : 1, dp = 0, dt = 0, tn = lnorm(te);
            for (int j = 0; j < pp; j++) dp += (p2[j] - sgn * pe[j]) * (p2[j] - sgn * pe[j]);
            for (int i = 0; i < n; i++) dt += (t2[i] - sgn * te[i]) * (t2[i] - sgn * te[i]);
            static const char *tn_[] = {"permuting objects", "permuting variables", "rotating the data"};
            if (sqrtl(dp) > tolk) { char m[240]; snprintf(m, sizeof m, "%s does not transform loading %d accordingly (difference %.3Lg, allowed %.3g)", tn_[tf], k, sqrtl(dp), tolk); o.fail("not-equivariant", m); }
            else if (sqrtl(dt) > (3 * tol.score_rel[k] + 1e-8) * (tn + 1e-300L)) { char m[240]; snprintf(m, sizeof m, "%s does not transform score %d accordingly (relative difference %.3Lg, allowed %.3g)", tn_[tf], k, sqrtl(dt) / tn, 3 * tol.score_rel[k] + 1e-8); o.fail("not-equivariant", m); }
          }
          o.counters[std::string("probe.equivariance_") + (tf == 0 ? "objects" : tf == 1 ? "variables" : "rotation")]++;
        }
      }
    }
    if (o.violation && !p.has("sched.switches")) o.switch_list = B.switches;
    return o;
  }

  std::vector<Plan> shrink(const Plan &p) override {
    std::vector<Plan> out;
    auto with = [&](const char *k, long long v) { Plan q = p; q.seti(k, v); out.push_back(q); };
    if (p.geti("sched.strategy") != 0 && !p.has("sched.switches")) with("sched.strategy", 0);
    long long n = p.geti("rows"), pp = p.geti("cols"), np = p.geti("machine.nproc");
    for (long long v : {(long long)2, np / 2, np - 1}) if (v >= 1 && v < np) with("machine.nproc", v);
    for (long long v : {n / 2, n - 1}) if (v >= 2 && v < n) with("rows", v);
    for (long long v : {pp / 2, pp - 1}) if (v >= 1 && v < pp) with("cols", v);
    if (p.geti("const_cols")) with("const_cols", 0);
    if (!p.has("npc")) with("npc", 1);
    shrink_switches(p, out);
    return out;
  }
};

int main(int argc, char **argv) { HPca h; return harness_main(h, argc, argv); }
