// Accuracy of NIPALS components implied by the documented convergence criterion
//     sum (t_new - t_old)^2 / (n * sum t_new^2) < crit            (pca.h: 1e-10)
// for the power iteration  p = E't/t't, p /= |p|, t = E p  followed by the deflation  E -= t p'.
//
// Convergence.  Write t in the left singular vectors of the (deflated) matrix: t = sum a_i u_i.  One step multiplies a_i by
// lambda_i/lambda_k relative to a_k, so the squared change is sum a_i^2 (1-r_i)^2, r_i = lambda_i/lambda_k <= r_k :=
// lambda_{k+1}/lambda_k.  When the criterion is met, sum_{i != k} a_i^2 <= n*crit*sigma_k^2/(1-r_k)^2.  The loading is
// p ~ E't, whose coefficient on v_i is sigma_i a_i: relative to the k-th one that is (sigma_i/sigma_k)(a_i/sigma_k)
// <= sqrt(r_k) * sqrt(n*crit)/(1-r_k).  Hence      sin(angle(p_k, v_k)) <= d_conv(k) = sqrt(n*crit) * sqrt(r_k)/(1-r_k).
//
// Deflation.  E(I - pp') is the compression of the data onto the complement of p, not of v_j: with p = v_j cos d + w sin d every
// later loading is orthogonal to p and therefore tilted towards v_j by tan d * (w . v_k) <= d_j (first order, independent of the
// gap).  In addition the cross-product matrix of the deflated data keeps a term of size lambda_j d_j^2; all earlier components
// together perturb it by  c_k = sum_{j<k} lambda_j d_j^2,  which moves the k-th eigenvector by at most
// c_k / (lambda_k - lambda_{k+1}) (Davis-Kahan) and the eigenvalue by c_k.  So
//     d_k <= d_conv(k) + sum_{j<k} d_j + c_k / (lambda_k - lambda_{k+1}).
//
// Stored eigenvalue: t't of the score before the last update, within 2 sqrt(n*crit) of the converged one, which in turn is a
// Rayleigh quotient (error lambda_k d^2).
//
// Rounding.  Two more terms, negligible unless lambda_k is many orders below lambda_1: the library works in double on E itself, so
// direction k carries a rounding error of about eps_double * sqrt(n p) * sigma_1/sigma_k / (1 - r); and the oracle's own
// eigenvectors come from a Jacobi sweep of E'E in long double, whose entries are exact only to eps_longdouble * lambda_1, i.e. its
// k-th eigenvector is uncertain by eps_longdouble * lambda_1 / (lambda_k (1 - r)).  A component of relative size 1e-19 (centring
// noise of data in a small unit on top of large offsets) is noise for the oracle itself and comes out as undecidable.
//
// The oracle allows SAFETY times these first-order bounds and declares a component undecidable (skipped, counted) when the
// allowed angle would exceed 0.3.
#pragma once
#include <vector>
#include <cmath>
#include "linalg.hpp"

struct NipalsTol {
  std::vector<double> sin_angle;   // allowed sin(angle) between loading k and eigenvector k
  std::vector<double> eval_rel;    // allowed relative error of eigenvalue k
  std::vector<double> score_rel;   // allowed relative error (in the 2-norm) of score vector k = (deflated data) x loading k:
                                   // the deflated data themselves differ by sigma_j d_j for every earlier component j, so
                                   // score_rel(k) = sin_angle(k) + sum_{j<k} (sigma_j/sigma_k) sin_angle(j)
  int kmax = 0;                    // components [0,kmax) are decidable
};

// data_noise: relative accuracy of the entries of E beyond plain rounding (centring a column at location m with spread sd leaves
// eps*|m|/sd), enters like the rounding term
inline NipalsTol nipals_tolerances(const LVec &ev, int npc, int n, double crit, double safety = 10.0, int ncols = 0, double data_noise = 0.0) {
  NipalsTol T; T.sin_angle.assign(npc, 1.0); T.eval_rel.assign(npc, 1.0); T.score_rel.assign(npc, 1.0);
  long double c = 0;  // accumulated deflation perturbation of the cross-product matrix
  double tilt = 0;    // sum of the angle errors of the earlier components (each later loading is orthogonal to them)
  T.kmax = npc;
  for (int k = 0; k < npc; k++) {
    if (!(k < (int)ev.size()) || !(ev[k] > 0)) { T.kmax = k; break; }
    double r = (k + 1 < (int)ev.size()) ? (double)(ev[k + 1] / ev[k]) : 0.0;
    if (!(r > 0)) r = 0;  // a numerically zero eigenvalue may come out of the Jacobi sweep as -1e-30
    if (r >= 0.95) { T.kmax = k; break; }
    double dconv = sqrt((double)n * crit) * sqrt(r) / (1 - r);
    double ddefl = tilt + (double)(c / (ev[k] * (1 - r)));
    double cells = (double)n * (double)(ncols > 0 ? ncols : (int)ev.size());
    double dround = 16 * (2.220446049250313e-16 + data_noise) * sqrt(cells) * sqrt((double)(ev[0] / ev[k])) / (1 - r);   // the library's double arithmetic
    double doracle = 64 * 1.0842021724855044e-19 * (double)(ev[0] / ev[k]) / (1 - r);                       // the oracle's long-double Jacobi on E'E
    double d = dconv + ddefl + dround + doracle;
    T.sin_angle[k] = safety * d + 1e-7;
    T.eval_rel[k] = safety * (2 * sqrt((double)n * crit) + d * d + (double)(c / ev[k])) + 1e-9;
    T.score_rel[k] = T.sin_angle[k]; for (int j = 0; j < k; j++) T.score_rel[k] += sqrt((double)(ev[j] / ev[k])) * T.sin_angle[j];
    if (T.sin_angle[k] > 0.3) { T.kmax = k; break; }
    long double dj = 2 * d;  // what this component may leave behind (factor 2: rounding and the neglected higher orders)
    c += ev[k] * dj * dj;
    tilt += d;
  }
  return T;
}
