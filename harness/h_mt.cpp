// C13 — multithreaded kernels equal their sequential definition for any thread count.
// Exhaustive (rows, threads) grid for the slicing logic + seeded value runs; see DESIGN.md section 3.
#include "lib.hpp"

// the k-means labelling kernel itself (not in clustering.h, but an external symbol of clustering.c): called directly when present
extern "C" void getLabels_(matrix *m, matrix *centroids, uivector *labels, int nthreads) __attribute__((weak));
enum Kern { K_MTMV = 0, K_MTVM, K_DIST_E, K_DIST_SE, K_DIST_M, K_DIST_C, K_COND_E, K_COND_SE, K_COND_M, K_COND_C,
            K_KMEANS, K_KMPP, K_MDC, K_MAXDIS, K_MAXDISF, K_COUNT };
static const char *kern_name[] = {"MT_MatrixDVectorDotProduct", "MT_DVectorMatrixDotProduct", "CalculateDistance/EUCLIDEAN", "CalculateDistance/SQUARE_EUCLIDEAN",
                                  "CalculateDistance/MANHATTAN", "CalculateDistance/COSINE", "EuclideanDistanceCondensed", "SquaredEuclideanDistanceCondensed",
                                  "ManhattanDistanceCondensed", "CosineDistanceCondensed", "KMeans", "KMeansppCenters", "MDC", "MaxDis", "MaxDis_Fast"};

#define GRID_ROWS 41
#define GRID_THREADS 24
#define GRID_PAIRS (GRID_ROWS * GRID_THREADS)
#define GRID_SIZE (GRID_PAIRS * K_COUNT)

struct Ctx {
  const Plan *p;
  Outcome *o;
  int kern, rows, cols, threads, other; bool alias = false;
  Mat A, B;
  std::vector<double> v;
  // results
  Mat ref_m, got_m;
  std::vector<double> ref_v, got_v;
  std::vector<size_t> other_u; int sel_metric = 0;   // the same selection by the other max-min implementation
  std::vector<size_t> ref_u, got_u, got_lab;   // got_lab: labels from a direct call of the labelling kernel on (data, returned centroids), output pre-filled with a sentinel
  Mat ref_c, got_c, lab_c;   // lab_c: the centroids handed to the direct labelling call
  int phase;  // 0 = reference, 1 = multithreaded
  uint32_t rng_seed;
};

static enum cmethod method_of(int kern) {
  switch (kern) { case K_DIST_E: case K_COND_E: return EUCLIDEAN; case K_DIST_SE: case K_COND_SE: return SQUARE_EUCLIDEAN; case K_DIST_M: case K_COND_M: return MANHATTAN; default: return COSINE; }
}

static void call_kernel(void *arg) {
  Ctx &c = *(Ctx *)arg;
  bool mt = c.phase == 1;
  size_t nth = mt ? (size_t)c.threads : 1;
  switch (c.kern) {
    case K_MTMV: {
      matrix *m = to_matrix(c.A, c.cols); dvector *v = to_dvector(c.v); dvector *p; NewDVector(&p, m->row);
      if (mt) MT_MatrixDVectorDotProduct(m, v, p); else MatrixDVectorDotProduct(m, v, p);
      (mt ? c.got_v : c.ref_v) = from_dvector(p);
      DelDVector(&p); DelDVector(&v); DelMatrix(&m);
      break;
    }
    case K_MTVM: {
      matrix *m = to_matrix(c.A, c.cols); dvector *v = to_dvector(c.v); dvector *p; NewDVector(&p, m->col);
      if (mt) MT_DVectorMatrixDotProduct(m, v, p); else DVectorMatrixDotProduct(m, v, p);
      (mt ? c.got_v : c.ref_v) = from_dvector(p);
      DelDVector(&p); DelDVector(&v); DelMatrix(&m);
      break;
    }
    case K_DIST_E: case K_DIST_SE: case K_DIST_M: case K_DIST_C: {
      // the usual call is pairwise distances WITHIN one set: the very same matrix object for both operands (plan key alias=1)
      matrix *m1 = to_matrix(c.A, c.cols), *m2 = c.alias ? m1 : to_matrix(c.B, c.cols), *d; initMatrix(&d);
      if (mt) CalculateDistance(m1, m2, d, nth, method_of(c.kern));
      else switch (c.kern) {
        case K_DIST_E: EuclideanDistance_ST(m1, m2, d); break;
        case K_DIST_SE: SquaredEuclideanDistance_ST(m1, m2, d); break;
        case K_DIST_M: ManhattanDistance_ST(m1, m2, d); break;
        default: CosineDistance_ST(m1, m2, d); break;
      }
      (mt ? c.got_m : c.ref_m) = from_matrix(d);
      DelMatrix(&d); if (m2 != m1) DelMatrix(&m2); DelMatrix(&m1);
      break;
    }
    case K_COND_E: case K_COND_SE: case K_COND_M: case K_COND_C: {
      matrix *m = to_matrix(c.A, c.cols);
      if (mt) {
        dvector *d; initDVector(&d);
        switch (c.kern) {
          case K_COND_E: EuclideanDistanceCondensed(m, d, nth); break;
          case K_COND_SE: SquaredEuclideanDistanceCondensed(m, d, nth); break;
          case K_COND_M: ManhattanDistanceCondensed(m, d, nth); break;
          default: CosineDistanceCondensed(m, d, nth); break;
        }
        c.got_v = from_dvector(d);
        DelDVector(&d);
      } else {
        matrix *d; initMatrix(&d);
        CalculateDistance(m, m, d, 1, method_of(c.kern));  // square form, one worker
        c.ref_m = from_matrix(d);
        DelMatrix(&d);
      }
      DelMatrix(&m);
      break;
    }
    case K_KMEANS: {
      matrix *m = to_matrix(c.A, c.cols); uivector *lab; initUIVector(&lab); matrix *cen; initMatrix(&cen);
      srand_(c.rng_seed);
      KMeans(m, (size_t)c.other, 2 + (c.rng_seed & 1), lab, cen, nth);  // deterministic initialisers (MDC / MaxDis)
      (mt ? c.got_u : c.ref_u) = from_uivector(lab);
      (mt ? c.got_c : c.ref_c) = from_matrix(cen);
      if (mt && getLabels_) {
        // centroids of the harness's own choosing (some of the objects themselves, slightly displaced), not the ones k-means returned:
        // a labelling defect can make k-means collapse to one cluster, for which every labelling is right
        c.lab_c.clear(); for (int k = 0; k < c.other; k++) { std::vector<double> q = c.A[(size_t)((uint64_t)(k + 1) * 2654435761u % (uint64_t)c.rows)]; for (size_t j = 0; j < q.size(); j++) q[j] *= 1.0 + 0.01 * (double)((k + (int)j) % 3); c.lab_c.push_back(q); }
        matrix *cc = to_matrix(c.lab_c, c.cols); uivector *l2; NewUIVector(&l2, m->row); for (size_t i = 0; i < l2->size; i++) l2->data[i] = 999999;
        getLabels_(m, cc, l2, (int)nth); c.got_lab = from_uivector(l2); DelUIVector(&l2); DelMatrix(&cc);
      }
      DelMatrix(&cen); DelUIVector(&lab); DelMatrix(&m);
      break;
    }
    case K_KMPP: {
      matrix *m = to_matrix(c.A, c.cols); uivector *sel; initUIVector(&sel);
      srand_(c.rng_seed);
      KMeansppCenters(m, (size_t)c.other, sel, (int)nth);
      (mt ? c.got_u : c.ref_u) = from_uivector(sel);
      DelUIVector(&sel); DelMatrix(&m);
      break;
    }
    case K_MDC: case K_MAXDIS: case K_MAXDISF: {
      matrix *m = to_matrix(c.A, c.cols); uivector *sel; initUIVector(&sel);
      int metric = (int)(c.rng_seed % 3);
      if (c.kern == K_MDC) MDC(m, (size_t)c.other, metric, sel, nth);
      else if (c.kern == K_MAXDIS) MaxDis(m, (size_t)c.other, metric, sel, nth);
      else MaxDis_Fast(m, (size_t)c.other, metric, sel, nth);
      (mt ? c.got_u : c.ref_u) = from_uivector(sel);
      if (mt && c.kern != K_MDC && metric != 2) {  // the two max-min implementations share one contract: run the other one (sequentially) on the same input
        uivector *s2; initUIVector(&s2);
        if (c.kern == K_MAXDIS) MaxDis_Fast(m, (size_t)c.other, metric, s2, 1); else MaxDis(m, (size_t)c.other, metric, s2, 1);
        c.other_u = from_uivector(s2); c.sel_metric = metric; DelUIVector(&s2);
      }
      DelUIVector(&sel); DelMatrix(&m);
      break;
    }
  }
}

static long double ld_dist(const std::vector<double> &a, const std::vector<double> &b, enum cmethod me) {
  long double s = 0, da = 0, db = 0;
  for (size_t j = 0; j < a.size(); j++) {
    long double x = a[j], y = b[j];
    if (me == MANHATTAN) s += fabsl(x - y);
    else if (me == COSINE) { s += x * y; da += x * x; db += y * y; }
    else s += (x - y) * (x - y);
  }
  if (me == EUCLIDEAN) return sqrtl(s);
  if (me == COSINE) return s / (sqrtl(da) * sqrtl(db));
  return s;
}

struct HMt : Harness {
  const char *engine() const override { return "h_mt"; }

  Plan generate(uint64_t seed) override {
    Plan p;
    uint64_t idx = seed & 0xFFFFF;
    Prng wr(seed, PURPOSE_WORKLOAD), mr(seed, PURPOSE_MACHINE), sr(seed, PURPOSE_SCHEDULE);
    bool asan = strcmp(sim_variant(), "asan") == 0;
    int kern, rows, threads;
    if (idx < 2 * (uint64_t)GRID_SIZE) {
      uint64_t g = idx % GRID_SIZE;
      kern = (int)(g % K_COUNT);
      uint64_t pr = g / K_COUNT;
      rows = (int)(pr / GRID_THREADS);
      threads = 1 + (int)(pr % GRID_THREADS);
      p.set("mode", "grid");
      gen_machine(p, mr, sr, !asan, 64);
      p.seti("sched.strategy", idx < GRID_SIZE ? SIM_S0_SEQUENTIAL : SIM_S1_PERMUTED);
    } else {
      kern = (int)wr.below(K_COUNT);
      rows = (int)wr.range(1, 60);
      threads = (int)wr.range(1, 24);
      if (wr.chance(0.3)) threads = (int)wr.range(1, 8);
      p.set("mode", "value");
      gen_machine(p, mr, sr, !asan, 64);
    }
    int cols = (int)wr.range(1, 10);
    if (kern == K_MTVM) { /* sliced dimension is the column count */ int t = rows; rows = (int)wr.range(1, 10); cols = t; }
    // now and then a LARGE operand: size thresholds inside the library (a sequential shortcut for small inputs, a blocked path for big
    // ones) must not hide a path from the checks
    bool large = p.get("mode") == "value" && wr.chance(0.06);
    if (large) {
      threads = (int)wr.range(2, 8);
      if (kern == K_MTMV) { rows = (int)wr.range(64, 600); cols = (int)wr.range(8, 40); }
      else if (kern == K_MTVM) { rows = (int)wr.range(8, 600); cols = (int)wr.range(8, 120); }
      else if (kern <= K_COND_C) { rows = (int)wr.range(60, 140); cols = (int)wr.range(8, 24); }
      else { rows = (int)wr.range(60, 140); }
      p.seti("large", 1);
    }
    p.seti("kern", kern); p.seti("rows", rows); p.seti("cols", cols); p.seti("threads", threads);
    int other = 1;
    if (kern >= K_DIST_E && kern <= K_DIST_C) other = (int)wr.range(1, large ? 40 : 8);          // rows of m2
    if (kern >= K_DIST_E && kern <= K_DIST_C && (p.get("mode") == "value" ? wr.chance(0.4) : (idx / GRID_SIZE) % 2 == 1)) p.seti("alias", 1);   // grid: the second pass (permuted workers) uses one matrix for both operands
    if (kern == K_KMEANS || kern == K_KMPP) other = (int)wr.range(1, 6);             // clusters
    if (kern == K_MDC || kern == K_MAXDIS || kern == K_MAXDISF) other = (int)wr.range(1, rows > 1 ? rows : 1);  // selection size
    if (p.get("mode") == "grid" && (kern == K_MDC || kern == K_MAXDIS || kern == K_MAXDISF) && other > 4) other = 1 + other % 4;  // the slicing logic under test does not depend on the selection size
    p.seti("other", other);
    if (p.get("mode") == "value" && kern >= K_COND_E) { if (wr.chance(0.3)) p.setd("unit_exp", wr.uniform(-6.0, 4.0)); if (wr.chance(0.2)) p.seti("near_dup", 1); if (wr.chance(0.15)) p.seti("far_off", 1); }   // condensed distances, k-means, selections
    p.setu("data.seed", wr.next() >> 4);
    p.seti("machine.nproc", threads);  // detected count == requested count: one knob for all kernels
    return p;
  }

  Outcome execute(const Plan &p) override {
    Outcome o;
    Ctx c; c.p = &p; c.o = &o;
    c.kern = (int)p.geti("kern"); c.rows = (int)p.geti("rows"); c.cols = (int)p.geti("cols"); c.threads = (int)p.geti("threads"); c.other = (int)p.geti("other");
    Prng dr(p.getu("data.seed"), PURPOSE_WORKLOAD);
    c.rng_seed = (uint32_t)(dr.next() >> 33) | 1u;
    bool selection = c.kern >= K_KMEANS;
    char cfg[200]; snprintf(cfg, sizeof cfg, "%s rows=%d cols=%d threads=%d other=%d %s", kern_name[c.kern], c.rows, c.cols, c.threads, c.other, p.get("mode").c_str());
    o.cfg = cfg;
    if (selection && (c.rows < 3 || c.other > c.rows)) {  // not a valid input for these kernels: nothing to run
      o.counters["skipped.invalid_shape"]++; o.counters["grid.points"] += p.get("mode") == "grid";
      return o;
    }
    c.A = random_mat(dr, c.rows, c.cols);
    if (c.kern >= K_DIST_E && c.kern <= K_DIST_C) c.B = random_mat(dr, c.other, c.cols);
    c.alias = c.kern >= K_DIST_E && c.kern <= K_DIST_C && p.geti("alias", 0) != 0;
    if (c.alias) { c.B = c.A; o.counters["probe.same_matrix_for_both_operands"]++; }
    if (c.kern == K_MTMV) { c.v.resize(c.cols); for (double &x : c.v) x = dr.uniform(-10, 10); }
    if (c.kern == K_MTVM) { c.v.resize(c.rows); for (double &x : c.v) x = dr.uniform(-10, 10); }
    if (selection) {  // general position: distinct well separated points, positive coordinates for cosine
      for (auto &r : c.A) for (double &x : r) x = dr.uniform(0.5, 100.0);
    }
    if (p.geti("far_off", 0) && c.kern != K_COND_C && c.kern != K_MDC && c.kern != K_MAXDIS && c.kern != K_MAXDISF) {  // the cloud far from the origin (distances are translation invariant; not for cosine-based kernels)
      Prng fr(p.getu("data.seed") ^ 0x3355ccULL, PURPOSE_WORKLOAD); double far = pow(10.0, fr.uniform(4.0, 9.0));
      for (int j = 0; j < c.cols; j++) { double off = (fr.chance(0.5) ? 1 : -1) * far * fr.uniform(0.3, 1.0); for (auto &r : c.A) r[j] += off; }
      o.counters["probe.far_from_origin"]++;
    }
    if (p.has("unit_exp") || p.geti("near_dup", 0)) {   // value mode: data in another unit, some rows nearly (not exactly) duplicated
      Prng vr(p.getu("data.seed") ^ 0x77aa55ULL, PURPOSE_WORKLOAD);
      if (p.geti("near_dup", 0) && c.rows >= 2) { int nd = 1 + (int)vr.below((uint64_t)c.rows / 2 + 1); for (int d = 0; d < nd; d++) { size_t a = vr.below(c.rows), b = vr.below(c.rows); if (a == b) continue; c.A[a] = c.A[b]; for (double &v : c.A[a]) v += vr.uniform(-4e-4, 4e-4); } o.counters["probe.near_duplicate_rows"]++; }
      double u = pow(10.0, p.getd("unit_exp", 0.0)); if (u != 1.0) { for (auto &r : c.A) for (double &v : r) v *= u; o.counters[u < 1 ? "probe.small_unit" : "probe.large_unit"]++; }
    }

    sim_cfg sc; std::vector<sim_switch> rs;
    cfg_from_plan(p, sc, rs);
    sc.nproc = c.threads;
    sim_begin_run(&sc);
    // the seam must reach the library: GetNProcessor has to report the simulated count
    { size_t on = 0; GetNProcessor(&on, NULL); if ((int)on != c.threads) { sim_end_run(nullptr); o.infra = true; o.msg = "processor-count seam lost: GetNProcessor ignores the simulated sysconf"; return o; } }
    c.phase = 0;
    int rc0 = sim_guard(call_kernel, &c);
    c.phase = 1;
    int rc1 = sim_guard(call_kernel, &c);
    int unj = sim_unjoined();
    sim_result sr; sim_end_run(&sr);
    fill_outcome_from_sim(o, sr, sc.strategy);
    o.nontrivial = sr.max_live >= 3 || (sr.max_live >= 2 && c.threads <= 1);
    if (sr.max_live >= 2) o.nontrivial = true;
    o.counters["grid.points"] += p.get("mode") == "grid";
    o.counters[std::string("kernel.") + kern_name[c.kern]]++;
    if (p.geti("large", 0)) o.counters["probe.large_operand"]++;
    if (c.threads > c.rows) o.counters["probe.threads_gt_rows"]++;
    if (c.rows % c.threads) o.counters["probe.threads_not_dividing"]++;
    if (c.rows == 0) o.counters["probe.zero_rows"]++;

    Hasher h; h.u64(sr.hist_hash);
    if (rc0 != SIM_OK || rc1 != SIM_OK) { o.fail("abort", std::string(kern_name[c.kern]) + ": library aborted on a valid call (" + (rc0 ? "reference" : "multithreaded") + ")"); o.hash = h.h; return o; }
    if (unj) o.fail("unjoined-thread", std::string(kern_name[c.kern]) + ": worker thread not joined when the call returned");
    if (sr.races && races_are_verdicts()) o.fail(race_class(), std::string(kern_name[c.kern]) + ": workers overlap: " + races_text());

    // compare with the sequential definition
    auto cmpv = [&](const std::vector<double> &a, const std::vector<double> &b, const char *what) {
      if (a.size() != b.size()) { o.fail("shape", std::string(kern_name[c.kern]) + ": " + what + " size differs"); return; }
      for (size_t i = 0; i < a.size(); i++) if (!close_rel(a[i], b[i], 1e-12)) {
        char m[300]; snprintf(m, sizeof m, "%s: %s[%zu] multithreaded=%.17g sequential=%.17g (rows=%d threads=%d)", kern_name[c.kern], what, i, a[i], b[i], c.rows, c.threads);
        o.fail("differs-from-sequential", m); return;
      }
    };
    switch (c.kern) {
      case K_MTMV: case K_MTVM: cmpv(c.got_v, c.ref_v, "p"); hash_vec(h, c.got_v); break;
      case K_DIST_E: case K_DIST_SE: case K_DIST_M: case K_DIST_C: {
        if (c.got_m.size() != c.ref_m.size() || (c.got_m.size() && c.got_m[0].size() != c.ref_m[0].size())) o.fail("shape", std::string(kern_name[c.kern]) + ": distance matrix shape differs");
        else for (size_t i = 0; i < c.got_m.size() && !o.violation; i++) cmpv(c.got_m[i], c.ref_m[i], "distances row");
        // definition: recompute in long double
        enum cmethod me = method_of(c.kern);
        for (size_t k = 0; k < c.got_m.size() && !o.violation; k++) for (size_t i = 0; i < c.got_m[k].size(); i++) {
          long double e = ld_dist(c.A[i], c.B[k], me);
          if (fabsl((long double)c.got_m[k][i] - e) > 1e-11L * fmaxl(1.0L, fabsl(e))) { char m[300]; snprintf(m, sizeof m, "%s: d[%zu][%zu]=%.17g, definition gives %.17Lg", kern_name[c.kern], k, i, c.got_m[k][i], e); o.fail("distance-definition", m); break; }
        }
        hash_mat(h, c.got_m);
        break;
      }
      case K_COND_E: case K_COND_SE: case K_COND_M: case K_COND_C: {
        size_t n = (size_t)c.rows, want = n * (n - 1) / 2; if (n == 0) want = 0;
        if (c.got_v.size() != want) { o.fail("shape", std::string(kern_name[c.kern]) + ": condensed size is not n(n-1)/2"); break; }
        std::vector<char> seen(want, 0);
        enum cmethod me = method_of(c.kern);
        for (size_t i = 0; i < n && !o.violation; i++) for (size_t j = i + 1; j < n; j++) {
          size_t ix = square_to_condensed_index(i, j, n), ix2 = square_to_condensed_index(j, i, n);
          if (ix >= want || seen[ix] || ix2 != ix) { char m[200]; snprintf(m, sizeof m, "square_to_condensed_index(%zu,%zu,%zu)=%zu is not a bijection onto 0..%zu", i, j, n, ix, want); o.fail("condensed-index", m); break; }
          seen[ix] = 1;
          if (!close_rel(c.got_v[ix], c.ref_m[i][j], 1e-12) || !close_rel(c.got_v[ix], c.ref_m[j][i], 1e-12)) { char m[300]; snprintf(m, sizeof m, "%s: condensed[%zu]=%.17g but square[%zu][%zu]=%.17g (threads=%d)", kern_name[c.kern], ix, c.got_v[ix], i, j, c.ref_m[i][j], c.threads); o.fail("differs-from-sequential", m); break; }
          long double e = ld_dist(c.A[i], c.A[j], me);
          if (fabsl((long double)c.got_v[ix] - e) > 1e-11L * fmaxl(1.0L, fabsl(e))) { o.fail("distance-definition", std::string(kern_name[c.kern]) + ": condensed value differs from definition"); break; }
        }
        // metric axioms on the square form
        if (!o.violation && (me == EUCLIDEAN || me == MANHATTAN || me == SQUARE_EUCLIDEAN)) {
          for (size_t i = 0; i < n && !o.violation; i++) {
            if (c.ref_m[i][i] != 0.0) o.fail("distance-definition", std::string(kern_name[c.kern]) + ": non-zero self distance");
            for (size_t j = 0; j < n && !o.violation; j++) {
              if (c.ref_m[i][j] < 0) o.fail("distance-definition", "negative distance");
              if (!close_rel(c.ref_m[i][j], c.ref_m[j][i], 1e-12)) o.fail("distance-definition", "asymmetric distance matrix");
              if (me != SQUARE_EUCLIDEAN && n <= 24) for (size_t k = 0; k < n; k++) if ((long double)c.ref_m[i][j] > (long double)c.ref_m[i][k] + (long double)c.ref_m[k][j] + 1e-10L * (1 + fabsl(c.ref_m[i][j]))) { o.fail("distance-definition", "triangle inequality violated"); break; }
            }
          }
        }
        hash_vec(h, c.got_v);
        break;
      }
      default: {
        if (c.got_u != c.ref_u) {
          char m[300]; snprintf(m, sizeof m, "%s: result with %d threads differs from 1 thread (rows=%d, n=%d)", kern_name[c.kern], c.threads, c.rows, c.other);
          o.fail("differs-from-sequential", m);
        }
        if (c.kern == K_KMEANS) {
          if (c.got_c.size() != c.ref_c.size()) o.fail("shape", "KMeans: centroid count differs across thread counts");
          else for (size_t i = 0; i < c.got_c.size() && !o.violation; i++) cmpv(c.got_c[i], c.ref_c[i], "centroid");
          for (size_t l : c.got_u) if (l >= (size_t)c.other) o.fail("label-range", "KMeans: label out of range");
          // the labelling kernel against its definition: every object gets the index of a nearest centroid (long double; ties skipped),
          // and every cell of the sentinel-filled output was written by some worker
          if (!o.violation && !c.got_lab.empty()) {
            o.counters["probe.labelling_kernel_checked"]++;
            if (getenv("HMT_DEBUG")) { fprintf(stderr, "labels:"); for (size_t l : c.got_lab) fprintf(stderr, " %zu", l); fprintf(stderr, "\nA[0][0]=%g cen0[0]=%g ncen=%zu\n", c.A[0][0], c.lab_c[0][0], c.lab_c.size()); }
            for (size_t i = 0; i < c.got_lab.size() && !o.violation; i++) {
              size_t l = c.got_lab[i];
              if (l >= c.lab_c.size()) { char m[200]; snprintf(m, sizeof m, "k-means labelling: object %zu left at %zu by %d threads (no worker wrote it, or out of range)", i, l, c.threads); o.fail("row-not-processed", m); break; }
              long double best = INFINITY, second = INFINITY; size_t bi = 0;
              for (size_t k = 0; k < c.lab_c.size(); k++) { long double d = ld_dist(c.A[i], c.lab_c[k], EUCLIDEAN); if (d < best) { second = best; best = d; bi = k; } else if (d < second) second = d; }
              if (second - best <= 1e-12L * (1 + second)) { o.counters["skipped.label_tie"]++; continue; }
              if (l != bi) { char m[300]; snprintf(m, sizeof m, "k-means labelling with %d threads: object %zu labelled %zu (distance %.6Lg) but centroid %zu is nearer (%.6Lg)", c.threads, i, l, ld_dist(c.A[i], c.lab_c[l], EUCLIDEAN), bi, best); o.fail("label-not-nearest", m); }
            }
          }
          hash_mat(h, c.got_c);
        } else {
          if (!o.violation && !c.other_u.empty() && c.other_u != c.got_u) {
            // first position where MaxDis and MaxDis_Fast disagree: a violation unless the two candidates tie (to 1e-9) in their distance to the common prefix
            size_t j = 0; while (j < c.got_u.size() && j < c.other_u.size() && c.got_u[j] == c.other_u[j]) j++;
            bool tie = false;
            if (j > 0 && j < c.got_u.size() && j < c.other_u.size() && c.got_u[j] < c.A.size() && c.other_u[j] < c.A.size()) {
              enum cmethod me = c.sel_metric == 0 ? EUCLIDEAN : MANHATTAN; long double da = INFINITY, db = INFINITY;
              for (size_t q = 0; q < j; q++) { da = fminl(da, ld_dist(c.A[c.got_u[j]], c.A[c.got_u[q]], me)); db = fminl(db, ld_dist(c.A[c.other_u[j]], c.A[c.got_u[q]], me)); }
              tie = fabsl(da - db) <= 1e-9L * fmaxl(da, db);
            }
            if (tie) o.counters["skipped.maxmin_tie"]++;
            else { char m[260]; snprintf(m, sizeof m, "%s (metric %d, %d threads) and the other max-min implementation select different objects from position %zu on", kern_name[c.kern], c.sel_metric, c.threads, j); o.fail("maxdis-implementations-differ", m); }
          }
          if (c.got_u.size() != (size_t)c.other) o.fail("selection-count", std::string(kern_name[c.kern]) + ": wrong number of selected objects");
          std::set<size_t> s(c.got_u.begin(), c.got_u.end());
          if (s.size() != c.got_u.size()) o.fail("selection-distinct", std::string(kern_name[c.kern]) + ": duplicate selection");
          for (size_t x : c.got_u) if (x >= (size_t)c.rows) o.fail("selection-range", std::string(kern_name[c.kern]) + ": selected index out of range");
        }
        hash_uvec(h, c.got_u);
      }
    }
    o.hash = h.h;
    if (o.violation && !p.has("sched.switches")) { const sim_switch *sw; size_t n = sim_switches(&sw); if (n && n < 4000) o.switch_list = switches_text(sw, n); }
    return o;
  }

  std::vector<Plan> shrink(const Plan &p) override {
    std::vector<Plan> out;
    long long rows = p.geti("rows"), th = p.geti("threads"), cols = p.geti("cols"), other = p.geti("other");
    auto with = [&](const char *k, long long v) { Plan q = p; q.seti(k, v); if (std::string(k) == "threads") q.seti("machine.nproc", v); out.push_back(q); };
    if (p.geti("sched.strategy") != 0 && !p.has("sched.switches")) with("sched.strategy", 0);
    for (long long r : {rows / 2, rows - 1}) if (r >= 0 && r < rows) with("rows", r);
    for (long long t : {(long long)2, th / 2, th - 1}) if (t >= 1 && t < th) with("threads", t);
    for (long long cc : {(long long)1, cols - 1}) if (cc >= 1 && cc < cols) with("cols", cc);
    for (long long oo : {(long long)1, other - 1}) if (oo >= 1 && oo < other) with("other", oo);
    shrink_switches(p, out);
    return out;
  }
};

int main(int argc, char **argv) { HMt h; return harness_main(h, argc, argv); }
