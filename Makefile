# Builds the simulator objects and the harness binaries against a library build directory.
# usage: make LIB=/verif/build/lib-<hash> VARIANT=sim|asan bin/<variant>/h_mt ...
VARIANT ?= sim
REPO ?= /repo
LIBDIR := $(LIB)/$(VARIANT)
OUT := $(LIB)/bin-$(VARIANT)
CXX := clang++
CXXFLAGS := -std=c++17 -O2 -g -Wall -Wno-unused-function -fno-omit-frame-pointer -I$(REPO)/src -I$(LIBDIR)/inc -Iharness -Isim
ifeq ($(VARIANT),asan)
LDSAN := -fsanitize=address,undefined
else
LDSAN :=
endif
LDLIBS := $(LIBDIR)/libsci.a -l:libsqlite3.a -l:liblapack.a -l:libblas.a -lgfortran -lm -lpthread -ldl
SIMOBJ := $(OUT)/sim.o $(OUT)/pristine.o
HARNESSES := h_mt h_cv h_pca h_cpca h_sel h_live h_cont h_io

all: $(addprefix $(OUT)/,$(HARNESSES))

$(OUT)/sim.o: sim/sim.cpp sim/sim.h sim/prng.hpp
	@mkdir -p $(OUT)
	$(CXX) $(CXXFLAGS) -c $< -o $@
$(OUT)/pristine.o: sim/pristine.cpp
	@mkdir -p $(OUT)
	$(CXX) $(CXXFLAGS) -c $< -o $@
$(OUT)/vfs.o: sim/vfs.cpp sim/sim.h
	@mkdir -p $(OUT)
	$(CXX) $(CXXFLAGS) -c $< -o $@
$(OUT)/%.o: harness/%.cpp harness/common.hpp harness/lib.hpp sim/sim.h sim/prng.hpp $(wildcard oracle/*.hpp)
	@mkdir -p $(OUT)
	$(CXX) $(CXXFLAGS) -Ioracle -c $< -o $@
$(OUT)/h_io: $(OUT)/h_io.o $(OUT)/vfs.o $(SIMOBJ) $(LIBDIR)/libsci.a
	$(CXX) $(LDSAN) -rdynamic -no-pie -o $@ $(OUT)/h_io.o $(OUT)/vfs.o $(SIMOBJ) $(LDLIBS)
$(OUT)/h_%: $(OUT)/h_%.o $(SIMOBJ) $(LIBDIR)/libsci.a
	$(CXX) $(LDSAN) -rdynamic -no-pie -o $@ $< $(SIMOBJ) $(LDLIBS)
.PRECIOUS: $(OUT)/%.o
