// C06 (determinism of validation routines under every schedule / thread count) and
// C05 (cross-validation predictions are out-of-sample, folds are partitions, residual definition).
// See DESIGN.md section 3.
#include "lib.hpp"
#include <xmmintrin.h>
#include <algorithm>

// pristine reference server (sim/pristine.cpp): digests computed in a process image that never called the library before
extern "C" int pristine_start(uint64_t (*fn)(const char *text));
extern "C" int pristine_query(const char *text, uint64_t *digest);

enum Learner { L_PLS = 0, L_MLR = 1, L_LDA = 2 };
enum Routine { R_BOOT = 0, R_YSCR_LOO, R_YSCR_BOOT, R_KMEANS_CV, R_PCARANK, R_SPLIT_CONC, R_LOO, R_KFOLD, R_GEN };
static const char *routine_name[] = {"BootstrapRandomGroupsCV", "YScrambling/LOO", "YScrambling/Bootstrap", "KMeansRandomGroupsCV", "PCARankValidation",
                                     "concurrent-split-generators", "LeaveOneOut", "KFoldCV", "group-generators"};
static const char *learner_name[] = {"PLS", "MLR", "LDA"};
static AlgorithmType algo_of(int l) { return l == L_PLS ? _PLS_ : l == L_MLR ? _MLR_ : _LDA_; }

struct Case {
  Mat X, Y;
  int learner = 0, nlv = 1, xs = 0, ys = 0, routine = 0, groups = 3, iters = 2, nthreads = 1, nproc = 1, noise = 0;
  std::vector<size_t> kgroups;   // user labels for KFoldCV
  unsigned gen_seed = 1;
  double testsize = 0.2;
  int conc_threads = 2;
  int kinit = 3;   // start-centroid method of KMeansRandomGroupsCV
  int prior_profile = 0;   // 0 none, 1..6: unrelated library work done in the calling thread before the call under test
};

struct Out {
  Mat pred, res, aux;
  std::vector<double> vec;
  std::vector<Mat> mats;           // split outputs
  std::vector<std::vector<size_t>> ids;
  void hash(Hasher &h) const {
    hash_mat(h, pred); hash_mat(h, res); hash_mat(h, aux); hash_vec(h, vec);
    for (auto &m : mats) hash_mat(h, m);
    for (auto &v : ids) hash_uvec(h, v);
  }
};

static Case case_from_plan(const Plan &p) {
  Case c;
  c.learner = (int)p.geti("learner"); c.nlv = (int)p.geti("nlv", 1); c.xs = (int)p.geti("xscaling"); c.ys = (int)p.geti("yscaling");
  c.routine = (int)p.geti("routine"); c.groups = (int)p.geti("groups", 3); c.iters = (int)p.geti("iterations", 1);
  c.nthreads = (int)p.geti("nthreads", 1); c.nproc = (int)p.geti("machine.nproc", 1); c.noise = (int)p.geti("noise", 0); c.kinit = (int)p.geti("kinit", 3); c.prior_profile = (int)p.geti("prior_profile", 0);
  c.gen_seed = (unsigned)p.getu("gen_seed", 1); c.testsize = p.getd("testsize", 0.2); c.conc_threads = (int)p.geti("conc_threads", 2);
  int n = (int)p.geti("objects"), px = (int)p.geti("xcols"), ny = (int)p.geti("ycols", 1);
  Prng dr(p.getu("data.seed"), PURPOSE_WORKLOAD);
  c.X.assign(n, std::vector<double>(px)); c.Y.assign(n, std::vector<double>(ny));
  if (c.learner == L_LDA) {
    int ncls = (int)p.geti("classes", 2);
    for (int i = 0; i < n; i++) {
      int cls = i % ncls;
      for (int j = 0; j < px; j++) c.X[i][j] = dr.normal() + 3.0 * cls * ((j % 2) ? 1 : -1) + 0.5 * j;
      c.Y[i][0] = cls;
    }
  } else {
    Mat B(px, std::vector<double>(ny));
    for (auto &r : B) for (double &v : r) v = dr.uniform(-2, 2);
    for (int i = 0; i < n; i++) {
      for (int j = 0; j < px; j++) c.X[i][j] = dr.normal() * (1 + j) + 0.3 * j;
      for (int k = 0; k < ny; k++) { double s = 0; for (int j = 0; j < px; j++) s += c.X[i][j] * B[j][k]; c.Y[i][k] = s + 0.3 * dr.normal() + 5.0 * k; }
    }
  }
  if (c.learner != L_LDA && (p.has("xunit_exp") || p.has("yunit_exp"))) {  // variables and responses measured in other units
    double ux = pow(10.0, p.getd("xunit_exp", 0.0)), uy = pow(10.0, p.getd("yunit_exp", 0.0));
    for (auto &r : c.X) for (double &v : r) v *= ux;
    for (auto &r : c.Y) for (double &v : r) v *= uy;
  }
  for (auto &t : p.list("kgroups")) c.kgroups.push_back((size_t)atoll(t.c_str()));
  // explicit overrides used by minimisation / perturbation: "ymod" = "row:col:value ..."
  for (auto &t : p.list("ymod")) { int r, cc; double v; if (sscanf(t.c_str(), "%d:%d:%lf", &r, &cc, &v) == 3 && r < n && cc < ny) c.Y[r][cc] = v; }
  return c;
}

// ---- calling the library -----------------------------------------------------------------------
struct Call { const Case *c; Out *o; int nthreads; bool noise; const Mat *Yover; bool prior = false; };

// "whatever other library calls run concurrently": another user thread working on its OWN data.  What it does is one of several
// profiles (chosen by the plan): random-number calls, container work (sorting by another column, copies), distance / selection
// routines, k-means, a PCA fit, an MLR or PLS fit.  Nothing it touches is shared with the routine under test, so any interference
// is state the library keeps behind the caller's back.
static void other_library_work(const Case *c, int profile);
static void *noise_client(void *a) {
  const Case *c = (const Case *)a;
  other_library_work(c, c->noise > 0 ? c->noise - 1 : 0);
  return nullptr;
}
static void other_library_work(const Case *c, int profile) {
  Prng r(c->gen_seed * 2654435761u + 17, PURPOSE_WORKLOAD);
  matrix *m; NewMatrix(&m, 7, 3);
  for (size_t i = 0; i < m->row; i++) for (size_t j = 0; j < m->col; j++) m->data[i][j] = r.uniform(-5, 5) + (double)j;
  switch (profile) {
    default:
    case 0: {
      matrix *q; NewMatrix(&q, 3, 3);
      for (int i = 0; i < 6 + (int)(c->gen_seed % 5); i++) {
        srand_(1000 + i);
        (void)randInt(0, 50);
        (void)randDouble(0, 1);
        if (i % 2) MatrixInitRandomInt(q, 0, 10); else MatrixInitRandomFloat(q, 0, 1);
      }
      DelMatrix(&q);
      break; }
    case 1: {  // container work
      for (int i = 0; i < 3; i++) { MatrixSort(m, 1 + (size_t)(i % 2)); MatrixReverseSort(m, 2); }
      matrix *cp; initMatrix(&cp); MatrixCopy(m, &cp); MatrixDeleteRowAt(cp, 1); MatrixDeleteColAt(cp, 0); DelMatrix(&cp);
      dvector *v; NewDVector(&v, 9); for (size_t i = 0; i < v->size; i++) v->data[i] = r.uniform(-1, 1); DVectorSort(v); DelDVector(&v);
      dvector *col = getMatrixColumn(m, 1); DelDVector(&col);
      break; }
    case 2: {  // distances and selections
      matrix *d; initMatrix(&d); CalculateDistance(m, m, d, 2, (enum cmethod)(c->gen_seed % 4)); DelMatrix(&d);
      uivector *sel; initUIVector(&sel); MDC(m, 3, (int)(c->gen_seed % 3), sel, 1); DelUIVector(&sel);
      initUIVector(&sel); MaxDis(m, 3, (int)((c->gen_seed / 3) % 3), sel, 2); DelUIVector(&sel);
      break; }
    case 3: {  // k-means
      uivector *lab; initUIVector(&lab); matrix *cen; initMatrix(&cen);
      srand_(4242); KMeans(m, 2, (int)(c->gen_seed % 4), lab, cen, 1 + (size_t)(c->gen_seed % 2));
      DelUIVector(&lab); DelMatrix(&cen);
      break; }
    case 4: {  // PCA fit and projection
      PCAMODEL *pm; NewPCAModel(&pm); PCA(m, 1, 2, pm, NULL);
      matrix *ps; initMatrix(&ps); PCAScorePredictor(m, pm, 2, ps); DelMatrix(&ps); DelPCAModel(&pm);
      break; }
    case 5: {  // regression fits
      matrix *y; NewMatrix(&y, m->row, 1); for (size_t i = 0; i < y->row; i++) y->data[i][0] = m->data[i][0] * 2 - m->data[i][1] + r.uniform(-0.1, 0.1);
      if (c->gen_seed % 2) { MLRMODEL *mm; NewMLRModel(&mm); MLR(m, y, mm, NULL); DelMLRModel(&mm); }
      else { PLSMODEL *pl; NewPLSModel(&pl); PLS(m, y, 2, 1, 0, pl, NULL); DelPLSModel(&pl); }
      DelMatrix(&y);
      break; }
  }
  DelMatrix(&m);
}

struct SplitArg { const Case *c; unsigned seed; Mat gid, xtr, ytr, xte, yte; std::vector<size_t> ids; };
static void *split_worker(void *a_) {
  SplitArg *a = (SplitArg *)a_;
  matrix *x = to_matrix(a->c->X), *y = to_matrix(a->c->Y), *gid, *xtr, *ytr, *xte, *yte; uivector *ids;
  initMatrix(&gid); initMatrix(&xtr); initMatrix(&ytr); initMatrix(&xte); initMatrix(&yte); initUIVector(&ids);
  unsigned s = a->seed;
  random_kfold_group_generator(gid, (size_t)a->c->groups, x->row, &s);
  a->gid = from_matrix(gid);
  train_test_split(x, y, a->c->testsize, xtr, ytr, xte, yte, ids, &s);
  a->xtr = from_matrix(xtr); a->ytr = from_matrix(ytr); a->xte = from_matrix(xte); a->yte = from_matrix(yte); a->ids = from_uivector(ids);
  // a sweep over further seeds and group counts (cheap: no model is fitted): rare branches of the generator (long rejection streaks)
  // are reached far more often than through the validation routines; one checksum per call goes into the compared output
  if (a->c->iters > 1) {
    std::vector<double> sums;
    for (int r = 1; r < a->c->iters * 8; r++) {
      matrix *g2; initMatrix(&g2); unsigned s2 = a->seed * 7919u + (unsigned)r; size_t ng = 1 + (size_t)(s2 % (unsigned)x->row);
      random_kfold_group_generator(g2, ng, x->row, &s2);
      double cs = 0; for (size_t i = 0; i < g2->row; i++) for (size_t j = 0; j < g2->col; j++) cs += (double)((i + 1) * 131 + (j + 1)) * g2->data[i][j];
      sums.push_back(cs); DelMatrix(&g2);
    }
    a->gid.push_back(sums);
  }
  DelMatrix(&gid); DelMatrix(&xtr); DelMatrix(&ytr); DelMatrix(&xte); DelMatrix(&yte); DelUIVector(&ids); DelMatrix(&x); DelMatrix(&y);
  return nullptr;
}

static void call_routine(void *arg) {
  Call &k = *(Call *)arg;
  const Case &c = *k.c; Out &o = *k.o;
  if (k.prior && c.prior_profile > 0) { other_library_work(&c, c.prior_profile - 1); if (getenv("HCV_DEBUG")) fprintf(stderr, "after prior profile %d: mxcsr=0x%04x\n", c.prior_profile - 1, _mm_getcsr()); }   // "whatever library calls were made earlier": unrelated work in the SAME thread first
  if (k.prior) {
    // "whatever came before": an earlier, different call of the same routine in this process (other responses, other seed,
    // other iteration count) must leave nothing behind that changes the call under test
    Case c2 = c; Out scratch;
    for (auto &r : c2.Y) for (double &v : r) v = (c.learner == L_LDA) ? v : v * 1.5 + 1.0;
    c2.gen_seed = c.gen_seed + 101;
    if (c.routine == R_BOOT || c.routine == R_SPLIT_CONC || c.routine == R_KMEANS_CV || c.routine == R_PCARANK) c2.groups = c.groups > 2 ? c.groups - 1 : c.groups + 1;  // another fold layout on data of the same size
    if (c.routine == R_BOOT) c2.iters = (c.iters == k.nthreads * 2) ? k.nthreads * 3 : k.nthreads * 2;
    else if (c.routine != R_SPLIT_CONC) c2.iters = c.iters + 1;
    Call k2{&c2, &scratch, k.nthreads, false, nullptr, false};
    call_routine(&k2);
  }
  int nh = -1;
  if (k.noise) nh = sim_spawn(noise_client, (void *)&c);
  matrix *x = to_matrix(c.X), *y = to_matrix(k.Yover ? *k.Yover : c.Y);
  MODELINPUT in = initModelInput();
  in.mx = x; in.my = y; in.nlv = (size_t)c.nlv; in.xautoscaling = (size_t)c.xs; in.yautoscaling = (size_t)c.ys;
  switch (c.routine) {
    case R_BOOT: {
      matrix *py, *pr; initMatrix(&py); initMatrix(&pr);
      BootstrapRandomGroupsCV(&in, (size_t)c.groups, (size_t)c.iters, algo_of(c.learner), py, c.learner == L_LDA ? NULL : pr, (size_t)k.nthreads, NULL, 0);
      o.pred = from_matrix(py); o.res = from_matrix(pr);
      DelMatrix(&py); DelMatrix(&pr);
      break;
    }
    case R_LOO: {
      matrix *py, *pr; initMatrix(&py); initMatrix(&pr);
      LeaveOneOut(&in, algo_of(c.learner), py, c.learner == L_LDA ? NULL : pr, (size_t)k.nthreads, NULL, 0);
      o.pred = from_matrix(py); o.res = from_matrix(pr);
      DelMatrix(&py); DelMatrix(&pr);
      break;
    }
    case R_KFOLD: {
      matrix *py, *pr; initMatrix(&py); initMatrix(&pr);
      uivector *g; NewUIVector(&g, c.kgroups.size());
      for (size_t i = 0; i < c.kgroups.size(); i++) g->data[i] = c.kgroups[i];
      KFoldCV(&in, g, algo_of(c.learner), py, pr, (size_t)k.nthreads, NULL, 0);
      o.pred = from_matrix(py); o.res = from_matrix(pr);
      DelUIVector(&g); DelMatrix(&py); DelMatrix(&pr);
      break;
    }
    case R_YSCR_LOO: case R_YSCR_BOOT: {
      matrix *cc; initMatrix(&cc);
      ValidationArg va = initValidationArg();
      va.vtype = c.routine == R_YSCR_LOO ? LOO : BootstrapRGCV;
      YScrambling(&in, algo_of(c.learner), va, (size_t)c.iters, cc, (size_t)k.nthreads, NULL);
      o.aux = from_matrix(cc);
      DelMatrix(&cc);
      break;
    }
    case R_KMEANS_CV: {
      dvector *ss; initDVector(&ss);
      KMeansRandomGroupsCV(x, 3, c.kinit, (size_t)c.groups, (size_t)c.iters, ss, (size_t)k.nthreads);
      o.vec = from_dvector(ss);
      DelDVector(&ss);
      break;
    }
    case R_PCARANK: {
      dvector *r2; initDVector(&r2);
      PCARankValidation(x, (size_t)c.nlv, (size_t)c.xs, (size_t)c.groups, (size_t)c.iters, r2, NULL);
      o.vec = from_dvector(r2);
      DelDVector(&r2);
      break;
    }
    case R_SPLIT_CONC: {
      int T = c.conc_threads;  // number of callers; nthreads==1 means "one after the other" (reference)
      std::vector<SplitArg> args(T);
      std::vector<int> hs(T);
      for (int t = 0; t < T; t++) { args[t].c = &c; args[t].seed = c.gen_seed + 17u * t; }
      if (k.nthreads == 1) for (int t = 0; t < T; t++) split_worker(&args[t]);
      else {
        for (int t = 0; t < T; t++) hs[t] = sim_spawn(split_worker, &args[t]);
        for (int t = 0; t < T; t++) sim_join(hs[t]);
      }
      for (int t = 0; t < T; t++) { o.mats.push_back(args[t].gid); o.mats.push_back(args[t].xtr); o.mats.push_back(args[t].ytr); o.mats.push_back(args[t].xte); o.mats.push_back(args[t].yte); o.ids.push_back(args[t].ids); }
      break;
    }
    default: break;
  }
  DelMatrix(&x); DelMatrix(&y);
  if (nh >= 0) sim_join(nh);
}

static bool mats_equal_bits(const Mat &a, const Mat &b, std::string *where) {
  if (a.size() != b.size()) { *where = "row count"; return false; }
  for (size_t i = 0; i < a.size(); i++) {
    if (a[i].size() != b[i].size()) { *where = "column count"; return false; }
    for (size_t j = 0; j < a[i].size(); j++) if (!same_bits(a[i][j], b[i][j])) { char m[160]; snprintf(m, sizeof m, "[%zu][%zu] %.17g vs %.17g", i, j, a[i][j], b[i][j]); *where = m; return false; }
  }
  return true;
}
static bool mats_close(const Mat &a, const Mat &b, double rel, double abs_, std::string *where) {
  if (a.size() != b.size()) { *where = "row count"; return false; }
  for (size_t i = 0; i < a.size(); i++) {
    if (a[i].size() != b[i].size()) { *where = "column count"; return false; }
    for (size_t j = 0; j < a[i].size(); j++) if (!close_rel(a[i][j], b[i][j], rel, abs_)) { char m[160]; snprintf(m, sizeof m, "[%zu][%zu] %.17g vs %.17g", i, j, a[i][j], b[i][j]); *where = m; return false; }
  }
  return true;
}
static bool outs_equal_bits(const Out &a, const Out &b, std::string *w) {
  if (!mats_equal_bits(a.pred, b.pred, w)) { *w = "predicted_y" + *w; return false; }
  if (!mats_equal_bits(a.res, b.res, w)) { *w = "residuals" + *w; return false; }
  if (!mats_equal_bits(a.aux, b.aux, w)) { *w = "coefficients" + *w; return false; }
  if (!mats_equal_bits(Mat{a.vec}, Mat{b.vec}, w)) { *w = "vector" + *w; return false; }
  if (a.mats.size() != b.mats.size()) { *w = "output count"; return false; }
  for (size_t i = 0; i < a.mats.size(); i++) if (!mats_equal_bits(a.mats[i], b.mats[i], w)) { *w = "split output " + std::to_string(i) + *w; return false; }
  if (a.ids != b.ids) { *w = "test ids"; return false; }
  return true;
}
static bool outs_close(const Out &a, const Out &b, std::string *w) {
  if (!mats_close(a.pred, b.pred, 1e-9, 1e-12, w)) { *w = "predicted_y" + *w; return false; }
  if (!mats_close(a.res, b.res, 1e-9, 1e-9, w)) { *w = "residuals" + *w; return false; }
  if (!mats_close(a.aux, b.aux, 1e-9, 1e-9, w)) { *w = "coefficients" + *w; return false; }
  if (!mats_close(Mat{a.vec}, Mat{b.vec}, 1e-9, 1e-12, w)) { *w = "vector" + *w; return false; }
  if (a.mats.size() != b.mats.size()) { *w = "output count"; return false; }
  for (size_t i = 0; i < a.mats.size(); i++) if (!mats_close(a.mats[i], b.mats[i], 1e-9, 1e-12, w)) { *w = "split output " + std::to_string(i) + *w; return false; }
  if (a.ids != b.ids) { *w = "test ids"; return false; }
  return true;
}
static bool has_nan(const Mat &m) { for (auto &r : m) for (double v : r) if (v != v) return true; return false; }

#define STEP_CEILING 400000000ULL

struct HCv : Harness {
  const char *engine() const override { return "h_cv"; }

  // ------------------------------------------------------------------------------------------
  Plan generate(uint64_t seed) override {
    Plan p;
    Prng wr(seed, PURPOSE_WORKLOAD), mr(seed, PURPOSE_MACHINE), sr(seed, PURPOSE_SCHEDULE);
    gen_machine(p, mr, sr, true, 8);
    bool c06 = prop != "C05";
    int learner = (int)wr.below(3), routine;
    int n, px, ny = 1, nlv = 1;
    if (c06) {
      uint64_t r = wr.below(100);
      bool thorough = tier != "quick";
      routine = r < 45 ? R_BOOT : r < 53 ? R_LOO : r < 60 ? R_KFOLD : r < 67 ? R_YSCR_LOO : r < (thorough ? 70u : 68u) ? R_YSCR_BOOT : r < 77 ? R_KMEANS_CV : r < 86 ? R_PCARANK : R_SPLIT_CONC;
      if (routine == R_KFOLD && learner == L_LDA) learner = (int)wr.below(2);
      n = (int)wr.range(6, 24); px = (int)wr.range(1, 5); ny = (int)wr.range(1, 2);
      if (routine == R_YSCR_BOOT) { n = (int)wr.range(8, 11); px = (int)wr.range(1, 2); ny = 1; }
      if (routine == R_YSCR_LOO) { n = (int)wr.range(6, 12); }
      // a size threshold in the library (threads only above so many objects / iterations) must not hide a path: now and then a large case
      if ((routine == R_BOOT || routine == R_LOO || routine == R_KFOLD || routine == R_KMEANS_CV || routine == R_PCARANK) && wr.chance(0.03)) { n = (int)wr.range(40, 80); px = (int)wr.range(3, 8); p.seti("large", 1); }
    } else {
      uint64_t r = wr.below(100);
      routine = r < 30 ? R_LOO : r < 55 ? R_KFOLD : r < 85 ? R_BOOT : R_GEN;
      n = (int)wr.range(6, 30); px = (int)wr.range(1, 6); ny = (int)wr.range(1, 3);
      if (routine == R_KFOLD && learner == L_LDA) learner = (int)wr.below(2);  // the routine has no LDA branch
    }
    bool force_one_iter = false;
    if (!c06 && routine == R_BOOT && learner != L_LDA && wr.chance(0.4)) { force_one_iter = true; if (n > 14) n = (int)wr.range(std::max(8, px + 6), 14); }
    int classes = 2;
    if (learner == L_LDA) {
      ny = 1; classes = (int)wr.range(2, 3); if (px > 3) px = (int)wr.range(1, 3);
      if (n < classes * (px + 4)) n = classes * (px + 4);  // every class stays larger than the largest fold plus what LDA needs
    }
    if (learner == L_MLR && n < px + 5) n = px + 5;
    if (learner == L_PLS) nlv = (int)wr.range(1, std::min(3, px));
    if (routine == R_PCARANK) { nlv = (int)wr.range(1, std::min(3, px)); learner = L_PLS; }
    p.seti("routine", routine); p.seti("learner", learner); p.seti("objects", n); p.seti("xcols", px); p.seti("ycols", ny); p.seti("nlv", nlv); p.seti("classes", classes);
    p.seti("xscaling", (int)wr.below(routine == R_PCARANK ? 2 : 4)); p.seti("yscaling", (int)wr.below(2));
    // group / iteration / thread counts
    int need_train = learner == L_MLR ? px + 3 : learner == L_LDA ? classes * (px + 3) : 4;
    int groups = 2;
    for (int tries = 0; tries < 20; tries++) { groups = (int)wr.range(2, c06 ? 6 : std::max(2, n)); if (n - (n + groups - 1) / groups >= need_train) break; groups = 2 + (tries % 2); }
    if (learner == L_LDA && groups < 3) groups = 3;
    if (learner == L_LDA && groups > 4) groups = 4;
    int iters = (int)wr.range(1, 12);
    if (p.geti("large", 0) && routine == R_BOOT) iters = (int)wr.range(12, 40);
    if (force_one_iter) iters = 1;
    if (routine == R_YSCR_LOO || routine == R_YSCR_BOOT) iters = (int)wr.range(1, routine == R_YSCR_BOOT ? 1 : 3);
    if (routine == R_KMEANS_CV || routine == R_PCARANK) iters = (int)wr.range(1, 3);
    int nth = (int)wr.range(1, 8);
    if (routine == R_BOOT) { std::vector<int> d; for (int k = 1; k <= 8; k++) if (iters % k == 0) d.push_back(k); nth = d[wr.below(d.size())]; }
    if (routine == R_SPLIT_CONC) { nth = (int)wr.range(2, 4); p.seti("conc_threads", nth); groups = (int)wr.range(1, n); iters = (int)wr.range(1, 12); }
    if (routine == R_PCARANK) nth = (int)p.geti("machine.nproc");
    // the stated range of group counts starts at 1: everything in one group, i.e. no object left to train on
    // (not for LDA, which cannot be fitted on an empty training set and is never given one here: see DESIGN section 6)
    if (!c06 && routine == R_BOOT && learner != L_LDA && wr.chance(0.03)) { groups = 1; p.seti("single_group", 1); }
    p.seti("groups", groups); p.seti("iterations", iters); p.seti("nthreads", nth);
    if (routine == R_KMEANS_CV) p.seti("kinit", (int)wr.below(4));
    p.seti("noise", c06 && wr.chance(0.4) ? 1 + (int)wr.below(6) : 0);   // 0 none, 1..6 the profile of the concurrent caller
    p.seti("prior_call", c06 && routine != R_YSCR_BOOT && wr.chance(0.3) ? 1 : 0);
    if (p.geti("prior_call")) p.seti("prior_profile", (int)wr.below(7));
    p.setu("gen_seed", 1 + wr.below(1000000));
    p.setd("testsize", wr.chance(0.2) ? 1.5 : wr.uniform(0.05, 0.6));
    p.setu("data.seed", wr.next() >> 4);
    if (routine == R_KFOLD) {
      int ng = (int)wr.range(2, std::max(2, std::min(6, n / std::max(2, need_train / 2))));
      int style = (int)wr.below(3);  // balanced, unbalanced, non-contiguous labels
      std::vector<std::string> g;
      std::vector<int> cnt(16, 0);
      for (int i = 0; i < n; i++) {
        int l = style == 1 ? (wr.chance(0.5) ? 0 : (int)wr.below(ng)) : (int)wr.below(ng);
        cnt[l]++;
        if (style == 2) l = l * 2 + (l > 1);  // leaves label gaps
        g.push_back(std::to_string(l));
      }
      // every training set must keep enough rows
      int maxc = *std::max_element(cnt.begin(), cnt.end());
      if (n - maxc < need_train) { g.clear(); for (int i = 0; i < n; i++) g.push_back(std::to_string(i % ng)); }
      if (!c06 && wr.chance(0.03)) { g.assign(n, wr.chance(0.5) ? "0" : "3"); p.seti("single_group", 1); }   // one label for every object
      p.setlist("kgroups", g);
    }
    if (!c06) {
      if (learner != L_LDA && wr.chance(0.3)) { p.setd("xunit_exp", wr.uniform(-2.0, 2.0)); p.setd("yunit_exp", wr.uniform(-3.0, 3.0)); }
      p.seti("perturb_object", (int)wr.below(n));
      p.seti("infer_folds", routine == R_BOOT && iters == 1 && n <= 14 && learner != L_LDA ? 1 : 0);
      p.seti("sched.detect", 0);
    }
    return p;
  }

  // ------------------------------------------------------------------------------------------
  struct RunRes { int rc; sim_result sr; int unjoined; std::string race_cls, race_txt, switches, fpenv; };

  RunRes run_once(const Plan &p, const Case &c, Out &o, int strategy_override, int nthreads, int nproc, bool noise, long long clock_shift, const Mat *Yover = nullptr, bool prior = false, int garbage_mode = 1) {
    sim_cfg sc; std::vector<sim_switch> rs;
    cfg_from_plan(p, sc, rs);
    if (strategy_override >= 0) { sc.strategy = strategy_override; sc.replay = nullptr; sc.n_replay = 0; }
    sc.nproc = nproc; sc.clock0 += clock_shift; sc.step_limit = STEP_CEILING; sc.garbage_mode = garbage_mode;
    sim_begin_run(&sc);
    Call k{&c, &o, nthreads, noise, Yover, prior};
    RunRes r;
    // the floating-point control state of the calling thread (rounding mode, flush-to-zero, denormals-are-zero, exception masks) is
    // machine state that outlives a call: a routine that leaves it changed makes every later call in the thread depend on it
    unsigned csr0 = _mm_getcsr() & 0xFFC0u; unsigned short cw0 = 0; __asm__ __volatile__("fnstcw %0" : "=m"(cw0));
    r.rc = sim_guard(call_routine, &k);
    { unsigned csr1 = _mm_getcsr() & 0xFFC0u; unsigned short cw1 = 0; __asm__ __volatile__("fnstcw %0" : "=m"(cw1));
      if (csr1 != csr0 || cw1 != cw0) { char m[160]; snprintf(m, sizeof m, "MXCSR control bits 0x%04x -> 0x%04x, x87 control word 0x%04x -> 0x%04x", csr0, csr1, cw0, cw1); r.fpenv = m;
        _mm_setcsr((_mm_getcsr() & ~0xFFC0u) | csr0); __asm__ __volatile__("fldcw %0" : : "m"(cw0)); } }
    r.unjoined = sim_unjoined();
    sim_end_run(&r.sr);
    if (r.sr.races && races_are_verdicts()) { r.race_cls = race_class(); r.race_txt = races_text(); }
    const sim_switch *sw; size_t n = sim_switches(&sw);
    if (n && n < 6000) r.switches = switches_text(sw, n);
    return r;
  }

  Outcome execute(const Plan &p) override { return prop == "C05" ? execute_c05(p) : execute_c06(p); }

  // ---- C06 ------------------------------------------------------------------------------------
  Outcome execute_c06(const Plan &p) {
    Outcome o;
    Case c = case_from_plan(p);
    char cfg[256]; snprintf(cfg, sizeof cfg, "%s %s n=%zu p=%zu ny=%zu nlv=%d groups=%d it=%d threads=%d nproc=%d noise=%d", routine_name[c.routine], learner_name[c.learner],
                            c.X.size(), c.X[0].size(), c.Y[0].size(), c.nlv, c.groups, c.iters, c.nthreads, c.nproc, c.noise);
    o.cfg = cfg;
    o.counters[std::string("routine.") + routine_name[c.routine]]++;
    Out A, C, B;
    int plan_strategy = p.has("sched.switches") ? SIM_REPLAY : (int)p.geti("sched.strategy");
    sim_conflicts_clear();
    // A: sequential reference (one worker at a time, one processor)
    bool prior = p.geti("prior_call", 0) != 0;
    // the three executions also differ in what freshly allocated memory holds (zeros / NaN garbage / huge finite numbers): a result
    // that depends on uninitialised memory cannot agree across them
    RunRes ra = run_once(p, c, A, SIM_S0_SEQUENTIAL, 1, 1, false, 0, nullptr, prior, 2);   // preceded by other calls of the same routine when the plan says so
    // C: requested thread count, canonical schedule, no noise (also the profiling pass for S4)
    RunRes rc = run_once(p, c, C, SIM_S0_SEQUENTIAL, c.nthreads, c.nproc, false, 1000, nullptr, false, 1);
    // B: requested thread count under the plan's schedule, with the noise client
    RunRes rb = run_once(p, c, B, -1, c.nthreads, c.nproc, c.noise != 0, 777777, nullptr, false, 3);
    for (RunRes *r : {&ra, &rc, &rb}) fill_outcome_from_sim(o, r->sr, plan_strategy);
    if (p.geti("prior_call", 0)) o.counters["probe.prior_call_of_same_routine"]++;
    o.sched_sig = rb.sr.sched_sig;
    o.nontrivial = rb.sr.max_live >= 3 || rc.sr.max_live >= 3;
    o.counters["threads." + std::to_string(c.nthreads)]++;
    if (c.noise) { o.counters["probe.noise_client_ran"]++; static const char *pn[] = {"rng", "containers", "distances+selection", "kmeans", "pca", "regression"}; o.counters[std::string("noise.") + pn[(c.noise - 1) % 6]]++; }
    if (p.geti("large", 0)) o.counters["probe.large_operand"]++;
    if (rb.sr.clock_reads) o.counters["probe.wall_clock_read"]++;
    Hasher h; h.u64(ra.sr.hist_hash); h.u64(rc.sr.hist_hash); h.u64(rb.sr.hist_hash); A.hash(h); C.hash(h); B.hash(h);
    o.hash = h.h;
    if (ra.rc == SIM_CEILING || rc.rc == SIM_CEILING || rb.rc == SIM_CEILING) { o.counters["skipped.step_ceiling"]++; return o; }  // liveness is C18's business
    if (ra.rc || rc.rc || rb.rc) { o.fail("abort", std::string(routine_name[c.routine]) + ": library aborted on a valid call"); return o; }
    std::string w;
    for (RunRes *r : {&ra, &rc, &rb}) if (!r->fpenv.empty()) { o.fail("fp-environment-changed", std::string(routine_name[c.routine]) + ": the call (or the unrelated library work done in the same thread before it) returns with the thread's floating-point control state changed (" + r->fpenv + "): later calls in this thread compute under another mode"); break; }
    if (ra.unjoined || rc.unjoined || rb.unjoined) o.fail("unjoined-thread", std::string(routine_name[c.routine]) + ": a worker was not joined before the results were returned");
    for (RunRes *r : {&rc, &rb, &ra}) if (!r->race_cls.empty()) { o.fail(r->race_cls, std::string(routine_name[c.routine]) + ": unsynchronised shared state: " + r->race_txt); break; }
    if (prior) {
      // the sequential result must be the one a process obtains that has never called the library before
      Hasher ha; A.hash(ha);
      uint64_t d0 = 0;
      if (pristine_query(p.text().c_str(), &d0)) {
        o.counters["probe.compared_with_pristine_process"]++;
        if (d0 != ha.h) o.fail("depends-on-earlier-calls", std::string(routine_name[c.routine]) + ": the result differs from the one obtained in a process that made no earlier library call (state kept across calls; the pristine process also runs under its own clock)");
      } else o.counters["skipped.no_pristine_reference"]++;
    }
    if (!outs_equal_bits(B, C, &w)) o.fail("schedule-divergence", std::string(routine_name[c.routine]) + ": same inputs and thread count, different schedule / clock / concurrent caller / earlier call => different result: " + w);
    if (!outs_close(C, A, &w)) o.fail("thread-count-divergence", std::string(routine_name[c.routine]) + ": " + std::to_string(c.nthreads) + " threads differ from the sequential run: " + w);
    if (!has_nan(A.pred) && !has_nan(A.aux) && (has_nan(B.pred) || has_nan(B.aux) || has_nan(C.pred))) o.fail("nan", std::string(routine_name[c.routine]) + ": NaN appears only in the multithreaded run");
    // C runs without the noise client: a clock read there was made by the routine itself.  That is legal only if the value does not
    // reach the result, so the same execution is repeated under four more clocks (same schedule, same memory contents)
    if (!o.violation && rc.sr.clock_reads > 0) {
      o.counters["probe.routine_read_wall_clock"]++;
      for (int e = 1; e <= 4 && !o.violation; e++) {
        Out D; RunRes rd = run_once(p, c, D, SIM_S0_SEQUENTIAL, c.nthreads, c.nproc, false, 1000 + 3196801LL * e, nullptr, false, 1);
        fill_outcome_from_sim(o, rd.sr, plan_strategy);
        if (rd.rc == SIM_OK && !outs_equal_bits(D, C, &w)) o.fail("clock-dependence", std::string(routine_name[c.routine]) + ": the routine reads the wall clock and the same execution under another clock value gives a different result: " + w);
      }
    }
    if (o.violation && !p.has("sched.switches")) o.switch_list = rb.switches;
    return o;
  }

  // ---- C05 ------------------------------------------------------------------------------------
  // public-API refit: train on `train` rows (in that order), predict `test` rows
  static void refit_guard(void *a_) {
    struct A { const Case *c; const std::vector<size_t> *train, *test; const Mat *Y; Mat *out; };
    A &a = *(A *)a_;
    const Case &c = *a.c;
    Mat xt, yt, xp;
    for (size_t i : *a.train) { xt.push_back(c.X[i]); yt.push_back((*a.Y)[i]); }
    for (size_t i : *a.test) xp.push_back(c.X[i]);
    matrix *mx = to_matrix(xt, c.X[0].size()), *my = to_matrix(yt, c.Y[0].size()), *px = to_matrix(xp, c.X[0].size()), *py; initMatrix(&py);
    if (c.learner == L_PLS) {
      PLSMODEL *m; NewPLSModel(&m);
      size_t nlv = (size_t)c.nlv; if (nlv > mx->col) nlv = mx->col;
      PLS(mx, my, nlv, (size_t)c.xs, (size_t)c.ys, m, NULL);
      PLSYPredictorAllLV(px, m, NULL, py);
      DelPLSModel(&m);
    } else if (c.learner == L_MLR) {
      MLRMODEL *m; NewMLRModel(&m);
      MLR(mx, my, m, NULL);
      MLRPredictY(px, NULL, m, py, NULL, NULL, NULL);
      DelMLRModel(&m);
    } else {
      LDAMODEL *m; NewLDAModel(&m);
      LDA(mx, my, m);
      matrix *pf, *pb, *mn; initMatrix(&pf); initMatrix(&pb); initMatrix(&mn);
      LDAPrediction(px, m, pf, pb, mn, py);
      DelMatrix(&pf); DelMatrix(&pb); DelMatrix(&mn); DelLDAModel(&m);
    }
    *a.out = from_matrix(py);
    DelMatrix(&mx); DelMatrix(&my); DelMatrix(&px); DelMatrix(&py);
  }
  bool refit(const Case &c, const Mat &Y, const std::vector<size_t> &train, const std::vector<size_t> &test, Mat &out) {
    struct A { const Case *c; const std::vector<size_t> *train, *test; const Mat *Y; Mat *out; } a{&c, &train, &test, &Y, &out};
    sim_cfg sc; sim_cfg_default(&sc); sc.detect_races = 0; sc.nproc = 1; sc.step_limit = STEP_CEILING;
    sim_begin_run(&sc);
    int rc = sim_guard(refit_guard, &a);
    sim_end_run(nullptr);
    return rc == SIM_OK;
  }


  // Bootstrap CV recomputed through the public API only: folds from random_kfold_group_generator seeded with the formula the
  // routine documents (group + objects + responses + iterations + iteration index), split with kfold_group_train_test_split,
  // learner fitted and applied exactly as a user would.  Used only after the formula has been validated on this very tree.
  struct BootRef { const Case *c; int iterations; Mat mean; bool ok; };
  static void boot_reference(void *a_) {
    BootRef &a = *(BootRef *)a_; const Case &c = *a.c;
    size_t n = c.X.size(), ny = c.Y[0].size();
    matrix *x = to_matrix(c.X), *y = to_matrix(c.Y);
    Mat sum; std::vector<double> cnt(n, 0.0);
    for (int it = 0; it < a.iterations; it++) {
      unsigned seed = (unsigned)((size_t)c.groups + n + ny + (size_t)a.iterations + (size_t)it);
      matrix *gid; initMatrix(&gid);
      random_kfold_group_generator(gid, (size_t)c.groups, n, &seed);
      for (size_t g = 0; g < gid->row; g++) {
        matrix *xtr, *ytr, *xte, *yte, *py; initMatrix(&xtr); initMatrix(&ytr); initMatrix(&xte); initMatrix(&yte); initMatrix(&py);
        kfold_group_train_test_split(x, y, gid, g, xtr, ytr, xte, yte);
        if (c.learner == L_PLS) { PLSMODEL *m; NewPLSModel(&m); size_t nlv = (size_t)c.nlv; if (nlv > x->col) nlv = x->col; PLS(xtr, ytr, nlv, (size_t)c.xs, (size_t)c.ys, m, NULL); PLSYPredictorAllLV(xte, m, NULL, py); DelPLSModel(&m); }
        else if (c.learner == L_MLR) { MLRMODEL *m; NewMLRModel(&m); MLR(xtr, ytr, m, NULL); MLRPredictY(xte, NULL, m, py, NULL, NULL, NULL); DelMLRModel(&m); }
        else { LDAMODEL *m; NewLDAModel(&m); LDA(xtr, ytr, m); matrix *pf, *pb, *mn; initMatrix(&pf); initMatrix(&pb); initMatrix(&mn); LDAPrediction(xte, m, pf, pb, mn, py); DelMatrix(&pf); DelMatrix(&pb); DelMatrix(&mn); DelLDAModel(&m); }
        if (sum.empty()) sum.assign(n, std::vector<double>(py->col, 0.0));
        size_t k2 = 0;
        for (size_t j = 0; j < gid->col; j++) { int o2 = (int)gid->data[g][j]; if (o2 < 0) continue; if (k2 < py->row && (size_t)o2 < n) { for (size_t q = 0; q < py->col && q < sum[o2].size(); q++) sum[o2][q] += py->data[k2][q]; cnt[o2] += 1; } k2++; }
        DelMatrix(&xtr); DelMatrix(&ytr); DelMatrix(&xte); DelMatrix(&yte); DelMatrix(&py);
      }
      DelMatrix(&gid);
    }
    a.ok = !sum.empty();
    for (size_t i = 0; i < n && a.ok; i++) { if (cnt[i] == 0) { a.ok = false; break; } for (double &v : sum[i]) v /= cnt[i]; }
    a.mean = sum;
    DelMatrix(&x); DelMatrix(&y);
  }
  bool boot_by_public_api(const Case &c, int iterations, Mat &mean) {
    BootRef a{&c, iterations, {}, false};
    sim_cfg sc; sim_cfg_default(&sc); sc.detect_races = 0; sc.nproc = 1; sc.step_limit = STEP_CEILING;
    sim_begin_run(&sc);
    int rc = sim_guard(boot_reference, &a);
    sim_end_run(nullptr);
    mean = a.mean;
    return rc == SIM_OK && a.ok;
  }

  void check_generators(const Plan &p, const Case &c, Outcome &o) {
    (void)p;
    // random_kfold_group_generator / kfold_group_train_test_split / train_test_split called directly
    sim_cfg sc; sim_cfg_default(&sc); sc.detect_races = 0; sim_begin_run(&sc);
    size_t n = c.X.size();
    matrix *x = to_matrix(c.X), *y = to_matrix(c.Y), *gid; initMatrix(&gid);
    unsigned s = c.gen_seed;
    random_kfold_group_generator(gid, (size_t)c.groups, n, &s);
    Mat G = from_matrix(gid);
    std::vector<int> seen(n, 0);
    size_t want_cols = (n + c.groups - 1) / c.groups;
    if (G.size() != (size_t)c.groups || (G.size() && G[0].size() != want_cols)) o.fail("partition", "random_kfold_group_generator: group matrix is not groups x ceil(objects/groups)");
    for (auto &r : G) for (double v : r) { if (v == -1) continue; if (v < 0 || v >= (double)n || v != floor(v)) { o.fail("partition", "random_kfold_group_generator: entry is neither -1 nor an object index"); continue; } seen[(size_t)v]++; }
    for (size_t i = 0; i < n && !o.violation; i++) if (seen[i] != 1) { char m[160]; snprintf(m, sizeof m, "random_kfold_group_generator(groups=%d, objects=%zu, seed=%u): object %zu appears %d times", c.groups, n, c.gen_seed, i, seen[i]); o.fail("partition", m); }
    for (size_t g = 0; g < G.size() && !o.violation; g++) {
      matrix *xtr, *ytr, *xte, *yte; initMatrix(&xtr); initMatrix(&ytr); initMatrix(&xte); initMatrix(&yte);
      kfold_group_train_test_split(x, y, gid, g, xtr, ytr, xte, yte);
      std::vector<size_t> test; for (double v : G[g]) if (v != -1) test.push_back((size_t)v);
      if (xte->row != test.size() || xtr->row + xte->row != n || ytr->row != xtr->row || yte->row != xte->row) o.fail("partition", "kfold_group_train_test_split: train and test sizes do not add up to the data set");
      else {
        std::vector<int> used(n, 0);
        for (size_t k2 = 0; k2 < test.size(); k2++) { used[test[k2]]++; for (size_t j = 0; j < x->col; j++) if (!same_bits(xte->data[k2][j], c.X[test[k2]][j])) o.fail("partition", "kfold_group_train_test_split: test row is not the object listed in the group"); for (size_t j = 0; j < y->col; j++) if (!same_bits(yte->data[k2][j], c.Y[test[k2]][j])) o.fail("partition", "kfold_group_train_test_split: test response row mismatch"); }
        for (size_t k2 = 0; k2 < xtr->row; k2++) {  // identify each training row by content (rows are unique)
          size_t found = n;
          for (size_t i = 0; i < n; i++) { bool eq = true; for (size_t j = 0; j < x->col && eq; j++) eq = same_bits(xtr->data[k2][j], c.X[i][j]); for (size_t j = 0; j < y->col && eq; j++) eq = same_bits(ytr->data[k2][j], c.Y[i][j]); if (eq) { found = i; break; } }
          if (found == n) { o.fail("partition", "kfold_group_train_test_split: training row is not a row of the data set"); break; }
          used[found]++;
        }
        for (size_t i = 0; i < n && !o.violation; i++) if (used[i] != 1) o.fail("partition", "kfold_group_train_test_split: train and test are not a disjoint cover of the data set");
      }
      DelMatrix(&xtr); DelMatrix(&ytr); DelMatrix(&xte); DelMatrix(&yte);
    }
    // train_test_split
    {
      matrix *xtr, *ytr, *xte, *yte; uivector *ids; initMatrix(&xtr); initMatrix(&ytr); initMatrix(&xte); initMatrix(&yte); initUIVector(&ids);
      unsigned s2 = c.gen_seed + 5;
      train_test_split(x, y, c.testsize, xtr, ytr, xte, yte, ids, &s2);
      double ts = (c.testsize > 1.0 || c.testsize < 0) ? 0.2 : c.testsize;
      size_t want = (size_t)ceil(ts * n);
      std::vector<int> used(n, 0);
      if (ids->size != want || xte->row != want || xtr->row != n - want) o.fail("partition", "train_test_split: wrong test/train sizes");
      else {
        for (size_t k2 = 0; k2 < ids->size; k2++) { size_t id = ids->data[k2]; if (id >= n) { o.fail("partition", "train_test_split: test id out of range"); break; } used[id]++; for (size_t j = 0; j < x->col; j++) if (!same_bits(xte->data[k2][j], c.X[id][j])) o.fail("partition", "train_test_split: test row mismatch"); }
        size_t k2 = 0;
        for (size_t i = 0; i < n && !o.violation; i++) { if (used[i] > 1) o.fail("partition", "train_test_split: object drawn twice"); if (used[i]) continue; if (k2 >= xtr->row) { o.fail("partition", "train_test_split: training set too small"); break; } for (size_t j = 0; j < x->col; j++) if (!same_bits(xtr->data[k2][j], c.X[i][j])) o.fail("partition", "train_test_split: training rows are not the complement of the test ids"); k2++; }
      }
      DelMatrix(&xtr); DelMatrix(&ytr); DelMatrix(&xte); DelMatrix(&yte); DelUIVector(&ids);
    }
    DelMatrix(&gid); DelMatrix(&x); DelMatrix(&y);
    sim_result sr; sim_end_run(&sr);
    o.steps += sr.steps;
    o.nontrivial = true;
  }

  Outcome execute_c05(const Plan &p) {
    Outcome o;
    Case c = case_from_plan(p);
    size_t n = c.X.size(), ny = c.Y[0].size();
    char cfg[256]; snprintf(cfg, sizeof cfg, "%s %s n=%zu p=%zu ny=%zu nlv=%d groups=%d it=%d threads=%d", routine_name[c.routine], learner_name[c.learner], n, c.X[0].size(), ny, c.nlv, c.groups, c.iters, c.nthreads);
    o.cfg = cfg;
    o.counters[std::string("routine.") + routine_name[c.routine]]++;
    if (p.geti("single_group", 0)) o.counters["probe.single_group"]++;
    Hasher h;
    if (c.routine == R_GEN) { check_generators(p, c, o); h.str(o.msg); o.hash = h.h; return o; }
    int plan_strategy = p.has("sched.switches") ? SIM_REPLAY : (int)p.geti("sched.strategy");
    Out B;
    RunRes rb = run_once(p, c, B, -1, c.nthreads, c.nproc, false, 0);
    fill_outcome_from_sim(o, rb.sr, plan_strategy);
    o.nontrivial = true;
    h.u64(rb.sr.hist_hash); B.hash(h); o.hash = h.h;
    if (rb.rc == SIM_CEILING) { o.counters["skipped.step_ceiling"]++; return o; }
    if (rb.rc) { o.fail("abort", std::string(routine_name[c.routine]) + ": library aborted on a valid call"); return o; }
    size_t nlv_eff = c.learner == L_PLS ? std::min<size_t>((size_t)c.nlv, c.X[0].size()) : 1;
    size_t want_cols = c.learner == L_PLS ? ny * nlv_eff : c.learner == L_MLR ? ny : 1;
    if (B.pred.size() != n || (n && B.pred[0].size() != want_cols)) { o.fail("shape", std::string(routine_name[c.routine]) + ": prediction matrix has the wrong shape"); return o; }
    std::string w;

    // (f) residual = prediction - matching observed response column (columns are LV-major: ny*lv + j)
    if (c.learner != L_LDA) {
      if (B.res.size() != n || B.res[0].size() != want_cols) o.fail("shape", "residual matrix has the wrong shape");
      else for (size_t i = 0; i < n && !o.violation; i++) for (size_t j = 0; j < want_cols; j++) {
        double e = B.pred[i][j] - c.Y[i][j % ny];
        if (!close_rel(B.res[i][j], e, 1e-12, 1e-12)) { char m[300]; snprintf(m, sizeof m, "%s %s ny=%zu nlv=%zu: residual[%zu][%zu]=%.10g but prediction-observed(response %zu)=%.10g", routine_name[c.routine], learner_name[c.learner], ny, nlv_eff, i, j, B.res[i][j], j % ny, e); o.fail("residual-definition", m); break; }
      }
      if (ny > 1 && nlv_eff > 1) o.counters["probe.multi_y_multi_lv"]++;
    }

    // (b) LOO / k-fold: predictions equal the public-API refit on exactly the other rows
    if (c.routine == R_LOO || c.routine == R_KFOLD) {
      std::vector<std::vector<size_t>> folds;
      if (c.routine == R_LOO) for (size_t i = 0; i < n; i++) folds.push_back({i});
      else { size_t gmax = 0; for (size_t g : c.kgroups) gmax = std::max(gmax, g); folds.resize(gmax + 1); for (size_t i = 0; i < n; i++) folds[c.kgroups[i]].push_back(i); }
      for (size_t g = 0; g < folds.size() && !o.violation; g++) {
        if (folds[g].empty()) { o.counters["probe.empty_user_group"]++; continue; }
        std::vector<size_t> train;
        if (c.routine == R_LOO) { for (size_t i = 0; i < n; i++) if (i != folds[g][0]) train.push_back(i); }
        else for (size_t g2 = 0; g2 < folds.size(); g2++) if (g2 != g) for (size_t i : folds[g2]) train.push_back(i);
        Mat ref;
        if (train.empty()) { o.counters["skipped.empty_training_set"]++; continue; }   // nothing to refit on; the own-response check below still applies
        if (!refit(c, c.Y, train, folds[g], ref)) { o.counters["skipped.refit_failed"]++; continue; }
        for (size_t k2 = 0; k2 < folds[g].size() && !o.violation; k2++) for (size_t j = 0; j < want_cols; j++) {
          double a = B.pred[folds[g][k2]][j], b = ref[k2][j];
          if (!close_rel(a, b, 1e-9, 1e-10)) { char m[300]; snprintf(m, sizeof m, "%s %s: prediction[%zu][%zu]=%.12g, refit on the other folds gives %.12g", routine_name[c.routine], learner_name[c.learner], folds[g][k2], j, a, b); o.fail("not-out-of-sample", m); break; }
          if (b == b && std::isfinite(b) && !std::isfinite(a)) o.fail("non-finite-prediction", "prediction not finite although the refit is");
        }
      }
      o.counters["probe.refit_compared"]++;
    }
    // (e) finite predictions
    for (size_t i = 0; i < n && !o.violation; i++) for (double v : B.pred[i]) if (!std::isfinite(v)) { char m[200]; snprintf(m, sizeof m, "%s %s: object %zu has a non-finite prediction", routine_name[c.routine], learner_name[c.learner], i); o.fail("non-finite-prediction", m); break; }

    // (c) the prediction of object i does not depend on its own response
    if (!o.violation) {
      size_t i = (size_t)p.geti("perturb_object") % n;
      Mat Y2 = c.Y;
      if (c.learner == L_LDA) { int ncls = (int)p.geti("classes", 2); Y2[i][0] = ((int)Y2[i][0] + 1) % ncls; }
      else for (size_t j = 0; j < ny; j++) Y2[i][j] = c.Y[i][j] * -37.5 + 1234.5;
      Out P; RunRes rp = run_once(p, c, P, -1, c.nthreads, c.nproc, false, 0, &Y2);
      o.steps += rp.sr.steps;
      if (rp.rc == SIM_OK && P.pred.size() == n) {
        for (size_t j = 0; j < want_cols; j++) if (!same_bits(P.pred[i][j], B.pred[i][j])) { char m[300]; snprintf(m, sizeof m, "%s %s: prediction of object %zu changes (%.12g -> %.12g) when only its own response changes", routine_name[c.routine], learner_name[c.learner], i, B.pred[i][j], P.pred[i][j]); o.fail("own-response-leak", m); break; }
        o.counters["probe.own_response_perturbed"]++;
      }
    }

    // (d) bootstrap, one iteration: infer the folds from which predictions move, then compare with the refit
    if (!o.violation && c.routine == R_BOOT && p.geti("infer_folds") && !p.geti("single_group", 0)) {
      std::vector<std::vector<char>> same(n, std::vector<char>(n, 0));
      bool ok = true;
      for (size_t j = 0; j < n && ok; j++) {
        Mat Y2 = c.Y; for (size_t k2 = 0; k2 < ny; k2++) Y2[j][k2] = c.Y[j][k2] * 3.25 + 77.0;
        Out P; RunRes rp = run_once(p, c, P, SIM_S0_SEQUENTIAL, c.nthreads, c.nproc, false, 0, &Y2);
        o.steps += rp.sr.steps;
        if (rp.rc != SIM_OK || P.pred.size() != n) { ok = false; break; }
        for (size_t i = 0; i < n; i++) { bool eq = true; for (size_t q = 0; q < want_cols; q++) eq = eq && same_bits(P.pred[i][q], B.pred[i][q]); same[j][i] = eq; }
      }
      if (ok) {
        // fold(j) = objects whose prediction did not move; must be an equivalence relation with <= groups classes covering everything
        std::vector<int> cls(n, -1); int ncls = 0;
        for (size_t j = 0; j < n && !o.violation; j++) {
          if (!same[j][j]) { o.fail("own-response-leak", "bootstrap: an object's own response moves its prediction"); break; }
          if (cls[j] >= 0) continue;
          cls[j] = ncls;
          for (size_t i = 0; i < n; i++) if (same[j][i] && i != j) { if (cls[i] >= 0 && cls[i] != ncls) o.fail("partition", "bootstrap: inferred folds overlap"); cls[i] = ncls; }
          ncls++;
        }
        for (size_t j = 0; j < n && !o.violation; j++) for (size_t i = 0; i < n; i++) if ((cls[i] == cls[j]) != (bool)same[j][i]) { o.fail("partition", "bootstrap: 'predicted by a model that saw y_j' is not a partition into folds"); break; }
        size_t cap = (n + c.groups - 1) / c.groups;
        if (!o.violation && ncls > c.groups) o.fail("partition", "bootstrap: more folds than requested groups");
        for (int q = 0; q < ncls && !o.violation; q++) {
          std::vector<size_t> test, train;
          for (size_t i = 0; i < n; i++) (cls[i] == q ? test : train).push_back(i);
          if (test.size() > cap) { o.fail("partition", "bootstrap: a fold is larger than ceil(objects/groups)"); break; }
          // the training-row order inside the routine is not observable; a refit in another order is only comparable
          // where the learner is exact up to rounding (MLR; PLS with one response needs no NIPALS iteration)
          if (c.learner == L_PLS && ny > 1) { o.counters["skipped.refit_order_sensitive"]++; continue; }
          Mat ref;
          if (!refit(c, c.Y, train, test, ref)) continue;
          for (size_t k2 = 0; k2 < test.size() && !o.violation; k2++) for (size_t jj = 0; jj < want_cols; jj++)
            if (!close_rel(B.pred[test[k2]][jj], ref[k2][jj], 1e-7, 1e-9)) { char m[300]; snprintf(m, sizeof m, "bootstrap %s: prediction[%zu][%zu]=%.12g, refit on the complement of its fold gives %.12g", learner_name[c.learner], test[k2], jj, B.pred[test[k2]][jj], ref[k2][jj]); o.fail("not-out-of-sample", m); break; }
        }
        o.counters["probe.folds_inferred"]++;
      }
    }

    // (g) bootstrap with several iterations: the reported prediction is the plain mean, over the iterations, of out-of-sample
    //     predictions.  The per-iteration folds are not observable, so the routine's documented seed formula is used -- but only
    //     after it has been validated on this very tree: a one-iteration run must equal its public-API reconstruction.
    if (!o.violation && c.routine == R_BOOT && c.iters > 1 && p.geti("boot_mean_check", 1) && !p.geti("single_group", 0)) {
      Case c1 = c; c1.iters = 1;
      Out O1; RunRes r1 = run_once(p, c1, O1, SIM_S0_SEQUENTIAL, 1, c.nproc, false, 0);
      o.steps += r1.sr.steps;
      Mat ref1, refI; std::string w2;
      bool formula_ok = r1.rc == SIM_OK && boot_by_public_api(c1, 1, ref1) && mats_close(O1.pred, ref1, 1e-9, 1e-10, &w2);
      if (!formula_ok) o.counters["skipped.seed_formula_not_validated"]++;
      else if (boot_by_public_api(c, c.iters, refI)) {
        if (!mats_close(B.pred, refI, 1e-9, 1e-10, &w2)) { char m[400]; snprintf(m, sizeof m, "bootstrap %s, %d iterations, %d threads: prediction is not the mean over the iterations of refits on the other folds: %s", learner_name[c.learner], c.iters, c.nthreads, w2.c_str()); o.fail("not-mean-of-out-of-sample", m); }
        o.counters["probe.bootstrap_mean_verified"]++;
        if (c.iters > c.nthreads) o.counters["probe.bootstrap_several_batches"]++;
      }
    }
    if (o.violation && !p.has("sched.switches")) o.switch_list = rb.switches;
    return o;
  }

  // ------------------------------------------------------------------------------------------
  std::vector<Plan> shrink(const Plan &p) override {
    std::vector<Plan> out;
    auto with = [&](const char *k, long long v) { Plan q = p; q.seti(k, v); out.push_back(q); };
    if (p.geti("noise")) with("noise", 0);
    if (p.geti("prior_call")) with("prior_call", 0);
    if (p.geti("sched.strategy") != 0 && !p.has("sched.switches")) with("sched.strategy", 0);
    long long it = p.geti("iterations"), th = p.geti("nthreads"), n = p.geti("objects"), px = p.geti("xcols"), ny = p.geti("ycols"), g = p.geti("groups"), nlv = p.geti("nlv");
    if (p.geti("routine") == R_BOOT) {
      if (th > 1) { Plan q = p; q.seti("nthreads", 2); q.seti("iterations", 2); out.push_back(q); }
      if (it > th) with("iterations", th);
    } else {
      for (long long t : {(long long)2, th - 1}) if (t >= 1 && t < th) with("nthreads", t);
      if (it > 1) with("iterations", 1);
    }
    if (p.geti("routine") != R_KFOLD) for (long long v : {n - 2, n - 1}) if (v >= 6 && v < n && (p.geti("learner") != L_LDA)) with("objects", v);
    if (px > 1 && nlv < px) with("xcols", px - 1);
    if (ny > 1 && prop != "C05") with("ycols", ny - 1);
    if (g > 2) with("groups", g - 1);
    if (p.geti("machine.nproc") > 2) with("machine.nproc", 2);
    shrink_switches(p, out);
    return out;
  }
};

static HCv *g_h = nullptr;
// runs in a fresh grandchild of the pristine zygote: the sequential reference run of the plan, without any earlier call
static uint64_t pristine_reference(const char *text) {
  Plan p = Plan::parse(text);
  Case c = case_from_plan(p);
  Out A;
  HCv::RunRes r = g_h->run_once(p, c, A, SIM_S0_SEQUENTIAL, 1, 1, false, 0);
  Hasher h; A.hash(h);
  return r.rc == SIM_OK ? h.h : 0xdeadULL;
}
int main(int argc, char **argv) {
  HCv h; g_h = &h;
  bool c06 = true; for (int i = 1; i + 1 < argc; i++) if (!strcmp(argv[i], "--prop") && !strcmp(argv[i + 1], "C05")) c06 = false;
  blas_single_thread(argv);   // before the reference server is forked
  if (c06 && argc > 1 && (!strcmp(argv[1], "run") || !strcmp(argv[1], "replay"))) pristine_start(pristine_reference);   // before the first library call of this process
  return harness_main(h, argc, argv);
}
