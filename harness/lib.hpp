// The library under test, as seen from C++ harness code.  Never include <signal.h>/<sys/wait.h>
// in a translation unit that includes this (scientificinfo.h typedefs `ssignal`).
#pragma once
extern "C" {
#include "tensor.h"
#include "matrix.h"
#include "vector.h"
#include "list.h"
#include "numeric.h"
#include "algebra.h"
#include "statistic.h"
#include "metricspace.h"
#include "optimization.h"
#include "clustering.h"
#include "preprocessing.h"
#include "pca.h"
#include "cpca.h"
#include "pls.h"
#include "mlr.h"
#include "lda.h"
#include "modelvalidation.h"
#include "io.h"
#include "memwrapper.h"
}
#include <vector>
#include <string>
#include <cmath>
#include "common.hpp"

typedef std::vector<std::vector<double>> Mat;

inline matrix *to_matrix(const Mat &a, size_t cols_if_empty = 0) {
  matrix *m;
  size_t r = a.size(), c = r ? a[0].size() : cols_if_empty;
  NewMatrix(&m, r, c);
  for (size_t i = 0; i < r; i++) for (size_t j = 0; j < c; j++) m->data[i][j] = a[i][j];
  return m;
}
inline Mat from_matrix(const matrix *m) {
  Mat a(m->row, std::vector<double>(m->col));
  for (size_t i = 0; i < m->row; i++) for (size_t j = 0; j < m->col; j++) a[i][j] = m->data[i][j];
  return a;
}
inline dvector *to_dvector(const std::vector<double> &v) {
  dvector *d; NewDVector(&d, v.size());
  for (size_t i = 0; i < v.size(); i++) d->data[i] = v[i];
  return d;
}
inline std::vector<double> from_dvector(const dvector *d) { return std::vector<double>(d->data, d->data + d->size); }
inline std::vector<size_t> from_uivector(const uivector *d) { return std::vector<size_t>(d->data, d->data + d->size); }

inline void hash_matrix(Hasher &h, const matrix *m) {
  h.u64(m->row); h.u64(m->col);
  for (size_t i = 0; i < m->row; i++) for (size_t j = 0; j < m->col; j++) h.dbl(m->data[i][j]);
}
inline void hash_mat(Hasher &h, const Mat &m) {
  h.u64(m.size());
  for (auto &r : m) { h.u64(r.size()); for (double v : r) h.dbl(v); }
}
inline void hash_vec(Hasher &h, const std::vector<double> &v) { h.u64(v.size()); for (double x : v) h.dbl(x); }
inline void hash_uvec(Hasher &h, const std::vector<size_t> &v) { h.u64(v.size()); for (size_t x : v) h.u64(x); }

inline bool same_bits(double a, double b) { if (a != a && b != b) return true; return memcmp(&a, &b, 8) == 0; }
inline bool close_rel(double a, double b, double rel, double abs_ = 0) {
  if (a != a || b != b) return (a != a) && (b != b);
  double d = fabs(a - b), s = fmax(fabs(a), fabs(b));
  return d <= abs_ + rel * s;
}

inline Mat random_mat(Prng &r, size_t rows, size_t cols, double lo_exp = -3, double hi_exp = 3) {
  Mat a(rows, std::vector<double>(cols));
  for (auto &row : a) for (double &v : row) { double e = r.uniform(lo_exp, hi_exp); v = (r.chance(0.5) ? 1 : -1) * pow(10.0, e) * r.uniform(0.1, 1.0); }
  return a;
}

// When the library objects reference a synchronisation primitive the simulator does not model (checked by the driver from the
// undefined symbols of the library objects), happens-before knowledge is incomplete: race reports become advisory and only
// result divergence decides (DESIGN.md section 2.3).
inline bool races_are_verdicts() { static int v = -1; if (v < 0) { const char *e = getenv("SIM_RACES_ADVISORY"); v = (e && *e == '1') ? 0 : 1; } return v == 1; }

// race report -> message
inline std::string races_text(size_t maxn = 3) {
  const sim_race *rs; size_t n = sim_races(&rs);
  std::string s;
  for (size_t i = 0; i < n && i < maxn; i++) {
    char b[400];
    snprintf(b, sizeof b, "%s%s %s vs %s %s on %s (x%llu)", i ? "; " : "", rs[i].write_a ? "write" : "read", rs[i].site_a, rs[i].write_b ? "write" : "read", rs[i].site_b, rs[i].object, (unsigned long long)rs[i].count);
    s += b;
  }
  return s;
}
// class of the first race: function names of the two sites, address free, order independent
inline std::string race_class() {
  const sim_race *rs; size_t n = sim_races(&rs);
  if (!n || !races_are_verdicts()) return "";
  std::set<std::string> objs;
  for (size_t i = 0; i < n; i++) {
    std::string o = rs[i].object; size_t p = o.find('+'); if (p != std::string::npos) o = o.substr(0, p);
    objs.insert(o);
  }
  std::string s = "race:";
  bool first = true;
  for (auto &o : objs) { s += (first ? "" : ","); s += o; first = false; }
  return s;
}

inline void fill_outcome_from_sim(Outcome &o, const sim_result &r, int strategy) {
  o.steps += r.steps; o.switches += r.switches; o.threads += r.threads;
  if (r.max_live > o.max_live) o.max_live = r.max_live;
  o.sched_sig ^= r.sched_sig;
  o.strategy = strategy_name(strategy);
}
