#!/usr/bin/env python3
"""Driver for the deterministic-simulation checks (DESIGN.md section 2.5).

  driver.py <ID> quick|thorough      run the check for one property
  driver.py --replay <file.json>     re-execute one recorded run

Builds the library variants from $REPO's working tree, builds the harness, runs worker processes
over seeds VERIF_SEED*2^20 + i, gates every violation (same-process re-run is done by the worker,
fresh-process replay here), matches known findings, writes /verif/evidence/<ID>.json.
Exit: 0 held, 1 violation (line "VIOLATION property=<ID> replay=<path>"), 2 infrastructure failure.
"""
import json, os, re, subprocess, sys, time, hashlib, shutil

VERIF = os.path.dirname(os.path.dirname(os.path.abspath(__file__)))
REPO = os.environ.get('REPO', '/repo')
GRID_MT = 41 * 24 * 15

# ------------------------------------------------------------------------------------------
# per-property configuration: engine, phases (variant, first index, count, budget seconds, workers)
def phases_for(pid, tier):
    q = tier == 'quick'
    B = float(os.environ.get('VERIF_BUDGET_S', '0') or 0)
    def b(quick_s, thorough_s):
        return B if B > 0 else (quick_s if q else thorough_s)
    W = int(os.environ.get('VERIF_WORKERS', '14'))
    WA = min(W, 8)
    P = {
        'C13': [dict(name='grid-sim', variant='sim', first=0, count=2 * GRID_MT, budget=600, workers=W, lines=1),
                dict(name='values-sim', variant='sim', first=2 * GRID_MT, count=10**9, budget=b(12, 600), workers=W, lines=1),
                dict(name='grid-asan', variant='asan', first=0, count=GRID_MT, budget=600, workers=WA, lines=1)],
        'C06': [dict(name='sim', variant='sim', first=0, count=10**9, budget=b(30, 900), workers=W, lines=1)],
        'C05': [dict(name='sim', variant='sim', first=0, count=10**9, budget=b(30, 900), workers=W, lines=1)],
        'C17': [dict(name='sim', variant='sim', first=0, count=10**9, budget=b(30, 900), workers=W, lines=1)],
        'C01': [dict(name='sim', variant='sim', first=0, count=10**9, budget=b(30, 900), workers=W, lines=1)],
        'C02': [dict(name='sim', variant='sim', first=0, count=10**9, budget=b(30, 900), workers=W, lines=1)],
        'C09': [dict(name='sim', variant='sim', first=0, count=10**9, budget=b(30, 900), workers=W, lines=1)],
        'C18': [dict(name='sim', variant='sim', first=0, count=10**9, budget=b(30, 900), workers=W, lines=1)],
        'C14': [dict(name='asan', variant='asan', first=0, count=10**9, budget=b(30, 900), workers=WA, lines=1)],
        'C16': [dict(name='asan', variant='asan', first=0, count=10**9, budget=b(35, 900), workers=WA, lines=1)],
    }
    ph = P[pid]
    if not q:
        # thorough: the thread-using engines also run under ASan/UBSan (memory errors that only a particular worker schedule exposes);
        # scheduling there is at thread-lifecycle / basic-block granularity and there is no race detector
        if pid in ('C06', 'C05', 'C17', 'C01', 'C02', 'C09'):
            ph = ph + [dict(name='asan', variant='asan', first=1 << 19, count=10**9, budget=b(0, 180), workers=WA, lines=1)]
        if pid == 'C13':
            ph = ph + [dict(name='values-asan', variant='asan', first=2 * GRID_MT, count=10**9, budget=b(0, 180), workers=WA, lines=1)]
    return ph

ENGINE = {'C13': 'h_mt', 'C06': 'h_cv', 'C05': 'h_cv', 'C17': 'h_sel', 'C01': 'h_pca', 'C02': 'h_pca', 'C09': 'h_cpca',
          'C18': 'h_live', 'C14': 'h_cont', 'C16': 'h_io'}

REAL_VS_STUB = {
    'real': ['every libscientific source listed in src/CMakeLists.txt, compiled from $REPO working tree (datasets.c without instrumentation)',
             'BLAS/LAPACK from the static archives liblapack.a / libblas.a of the image (OpenBLAS 0.3.21, pthread build) with its worker pool disabled: every harness process re-executes itself with OPENBLAS_NUM_THREADS=1', 'SQLite (libsqlite3.a) on real files under /dev/shm',
             'glibc pthreads as carriers of simulated threads (one runnable at a time)'],
    'simulated': ['thread scheduling (pthread_create/join/exit redirected; every switch decided by the seeded scheduler)',
                  'processor count (sysconf)', 'wall clock (time)', 'allocator behaviour (garbage fill, moving realloc, allocation failure)',
                  'abort() (captured, call unwound)', 'SQLite VFS (fault plan per operation)'],
    'substituted': ['the OpenBLAS worker pool the shipped .so would use is switched off (one BLAS thread), so that no thread escapes the scheduler']
}

def log(*a):
    print(*a, file=sys.stderr, flush=True)

def sh(cmd, **kw):
    return subprocess.run(cmd, stdout=subprocess.PIPE, stderr=subprocess.PIPE, text=True, **kw)

def build(variant, engine):
    env = dict(os.environ, REPO=REPO)
    r = sh([os.path.join(VERIF, 'tools/build.sh'), variant], env=env)
    if r.returncode != 0:
        log(r.stderr[-3000:])
        raise SystemExit(2)
    libdir = os.path.dirname(r.stdout.strip().splitlines()[-1])
    target = os.path.join(libdir, 'bin-' + variant, engine)
    r = sh(['flock', os.path.join(VERIF, 'build', '.make.lock'), 'make', '-s', '-C', VERIF, 'LIB=' + libdir, 'VARIANT=' + variant, 'REPO=' + REPO, target])
    if r.returncode != 0:
        log('harness build failed:\n' + (r.stdout + r.stderr)[-4000:])
        raise SystemExit(2)
    return target, libdir

def load_known():
    path = os.path.join(VERIF, 'known_findings.json')
    if not os.path.exists(path):
        return []
    return json.load(open(path))

def match_known(known, pid, cls, msg):
    for k in known:
        if k.get('status') != 'open' or k.get('property') != pid:
            continue
        m = k.get('match', {})
        if 'class' in m and not re.search(m['class'], cls):
            continue
        if 'message' in m and not re.search(m['message'], msg):
            continue
        return k
    return None

def plan_to_replay_json(pid, engine, variant, seed, plan_text, cls, msg, hh):
    lines = [l for l in plan_text.splitlines() if l.strip()]
    return {'property': pid, 'engine': engine, 'variant': variant, 'seed': seed, 'violation_class': cls,
            'plan': lines, 'expect': {'history_hash': hh, 'message': msg}}

def run_replay(binary, plan_lines, pid, tmpdir, timeout=600):
    os.makedirs(tmpdir, exist_ok=True)
    pf = os.path.join(tmpdir, 'replay-%d.plan' % os.getpid())
    with open(pf, 'w') as f:
        f.write('\n'.join(plan_lines) + '\n')
    try:
        r = subprocess.run([binary, 'replay', '--plan', pf, '--prop', pid], stdout=subprocess.PIPE, stderr=subprocess.PIPE, text=True, timeout=timeout, cwd=VERIF, errors='replace')
        out, rc, err = r.stdout, r.returncode, r.stderr
    except subprocess.TimeoutExpired:
        out, rc, err = '', -999, 'timeout'
    os.unlink(pf)
    m = re.search(r'REPLAY-VIOLATION class=(\S+) hash=(\w+) msg=(.*)', out)
    if m:
        return dict(kind='violation', cls=m.group(1), hash=m.group(2), msg=m.group(3), rc=rc)
    if 'REPLAY-CLEAN' in out:
        return dict(kind='clean', rc=rc)
    if 'REPLAY-INFRA' in out:
        return dict(kind='infra', rc=rc, msg=out)
    # crash: classify by sanitizer summary / signal
    return dict(kind='crash', rc=rc, cls=crash_class(rc, err), msg=crash_summary(err), err=err)

def crash_summary(err):
    m = re.search(r'ERROR: SimCrash: (signal-\d+)', err)
    if m:
        frames = [f.group(1) for f in re.finditer(r'#\d+ 0x[0-9a-f]+ in (\w+) /src/', err)][:4]
        return 'crash (%s) in %s' % (m.group(1), ' <- '.join(frames) or '?')
    m = re.search(r'SUMMARY: (.*)', err)
    if m:
        return m.group(1).strip()[:300]
    m = re.search(r'runtime error: (.*)', err)
    if m:
        return 'runtime error: ' + m.group(1).strip()[:300]
    return (err.strip().splitlines() or ['?'])[-1][:300]

def crash_class(rc, err):
    # class = kind of sanitizer report + innermost library frame (address free)
    kind = 'crash'
    m = re.search(r'ERROR: AddressSanitizer: (?:attempting )?([\w-]+)', err)
    if m:
        kind = 'asan:' + m.group(1)
    elif 'runtime error:' in err:
        kind = 'ubsan'
    elif 'ERROR: SimCrash: signal-' in err:
        kind = 'signal:' + re.search(r'SimCrash: signal-(\d+)', err).group(1)
    elif rc < 0:
        kind = 'signal:%d' % (-rc)
    elif rc not in (0, 1, 2):
        kind = 'exit:%d' % rc
    frame = '?'
    for fm in re.finditer(r'#\d+ 0x[0-9a-f]+ in (\w+) ([^\s]+)', err):
        fn, loc = fm.group(1), fm.group(2)
        if '/src/' in loc and '/verif/' not in loc and not fn.startswith('sim_') and not fn.startswith('__') and fn not in ('xfree', 'xmalloc', 'xrealloc'):
            frame = fn
            break
    return kind + '@' + frame

def main():  # noqa
    # scratch files of the simulated disk live under one directory per driver invocation, removed on exit even when workers died
    import atexit, shutil
    root = '/dev/shm/lsci-verif-%d' % os.getpid()
    os.makedirs(root, exist_ok=True)
    os.environ['SIM_SCRATCH_ROOT'] = root
    os.environ['OPENBLAS_NUM_THREADS'] = '1'   # no BLAS worker pool inside simulated processes (the harness would otherwise re-exec itself to get this)
    atexit.register(shutil.rmtree, root, True)
    return main_()

def main_():  # noqa
    if len(sys.argv) >= 3 and sys.argv[1] == '--replay':
        return replay_file(sys.argv[2])
    pid, tier = sys.argv[1], (sys.argv[2] if len(sys.argv) > 2 else os.environ.get('VERIF_TIER', 'quick'))
    if pid not in ENGINE:
        log('unknown property', pid)
        return 2
    seed = int(os.environ.get('VERIF_SEED', '1'))
    engine = ENGINE[pid]
    t0 = time.time()
    known = load_known()
    tmpdir = os.path.join(VERIF, 'build', 'tmp', '%s-%d' % (pid, os.getpid()))
    os.makedirs(tmpdir, exist_ok=True)
    os.makedirs(os.path.join(VERIF, 'replays'), exist_ok=True)
    os.makedirs(os.path.join(VERIF, 'evidence'), exist_ok=True)

    phases = phases_for(pid, tier)
    binaries, libdirs = {}, {}
    for ph in phases:
        if ph['variant'] not in binaries:
            binaries[ph['variant']], libdirs[ph['variant']] = build(ph['variant'], engine)
    build_s = time.time() - t0

    # synchronisation whitelist: anything thread-related the library objects still reference after redirection is unmodelled
    harmless = {'pthread_mutex_init', 'pthread_mutex_destroy', 'pthread_attr_init', 'pthread_attr_destroy', 'pthread_attr_setdetachstate', 'pthread_attr_setstacksize', 'pthread_self', 'pthread_equal', 'pthread_mutexattr_init', 'pthread_mutexattr_destroy', 'pthread_mutexattr_settype'}
    unmodelled = set()
    for v in set(ph['variant'] for ph in phases):
        try:
            for sym in open(os.path.join(libdirs[v], v, 'undefined.txt')).read().split():
                if re.match(r'^(pthread_|sem_|omp_|GOMP_|mtx_|cnd_|thrd_|__atomic_|__sync_)', sym) and sym not in harmless:
                    unmodelled.add(sym)
        except OSError:
            pass
    if unmodelled:
        os.environ['SIM_RACES_ADVISORY'] = '1'
        print('NOTE: the library now uses synchronisation the simulator does not model (%s): race reports are advisory, result divergence decides' % ', '.join(sorted(unmodelled)))
    # stored reproducers of open findings: replayed in a fresh process on every run, so that each listed finding that still reproduces on
    # this tree is named (KNOWN-FINDING line) whether or not the seeded sample happens to meet it
    known_hits = {}
    for k in known:
        rp = k.get('reproducer')
        if k.get('status') != 'open' or k.get('property') != pid or not rp:
            continue
        v = rp.get('variant', phases[0]['variant'])
        if v not in binaries:
            binaries[v], libdirs[v] = build(v, engine)
        rep = run_replay(binaries[v], rp['plan'], pid, tmpdir, timeout=300)
        if rep['kind'] in ('violation', 'crash') and match_known(known, pid, rep['cls'], rep.get('msg', '')) is k:
            jpath = os.path.join(VERIF, 'replays', '%s-known-%s.json' % (pid, k.get('id', 'finding')))
            json.dump(plan_to_replay_json(pid, engine, v, 0, '\n'.join(rp['plan']), rep['cls'], rep.get('msg', ''), rep.get('hash', '')), open(jpath, 'w'), indent=1)
            known_hits[k.get('id', k['what'][:40])] = dict(k=k, n=1, replay=jpath)
        else:
            print('NOTE: the stored reproducer of listed finding %s no longer fails on this tree (%s)' % (k.get('id', '?'), rep['kind']))
    overdue = []
    agg = dict(runs=0, steps_total=0, steps_max=0, switches_total=0, threads_total=0, counters={}, strategies={}, violation_classes={}, samples=[], nondet=0, infra=0, variants={}, phases=[])
    distinct = set()
    nontrivial_runs = 0
    total_r_lines = 0
    vlines = []      # (variant, seed, planpath, cls, msg)
    crashes = []     # (variant, seed, rc, logtail)
    infra_msgs = []

    for ph in phases:
        binary = binaries[ph['variant']]
        base = seed * (1 << 20)
        W = ph['workers']
        procs = []
        tph = time.time()
        def start(i, start_index):
            out = os.path.join(tmpdir, '%s-w%d-%d.out' % (ph['name'], i, start_index))
            lg = open(os.path.join(tmpdir, '%s-w%d-%d.log' % (ph['name'], i, start_index)), 'w')
            budget_left = max(1.0, ph['budget'] - (time.time() - tph))
            cmd = [binary, 'run', '--prop', pid, '--tier', tier, '--from', str(base + ph['first']), '--count', str(ph['count']), '--stride', str(W),
                   '--offset', str(start_index), '--budget-s', '%.1f' % budget_left, '--out', out, '--lines', str(ph['lines']), '--replay-dir', os.path.join(VERIF, 'replays')]
            p = subprocess.Popen(cmd, stdout=lg, stderr=subprocess.STDOUT, cwd=VERIF)
            return dict(p=p, out=out, log=lg.name, i=i, restarts=0)
        for i in range(W):
            procs.append(start(i, i))
        pending = list(procs)
        done_outs = []
        while pending:
            time.sleep(0.05)
            for w in list(pending):
                rc = w['p'].poll()
                if rc is None:
                    if time.time() - tph > ph['budget'] + 120:
                        w['killed'] = True  # over the wall-clock allowance: not a verdict about the seed it was on
                        w['p'].kill()
                    continue
                pending.remove(w)
                done_outs.append(w['out'])
                if rc != 0 and w.get('killed'):
                    agg['counters']['workers_cut_by_wall_clock'] = agg['counters'].get('workers_cut_by_wall_clock', 0) + 1
                    # the seed it was on is examined on its own afterwards (a run that needs its whole step budget - a hang - can outlast the phase)
                    try:
                        lb, fin = None, set()
                        for line in open(w['out'], errors='replace'):
                            if line.startswith('B '):
                                lb = int(line.split()[1])
                            elif line[:2] in ('R ', 'I '):
                                fin.add(int(line.split()[1]))
                        if lb is not None and lb not in fin:
                            overdue.append((ph['variant'], lb))
                    except (OSError, ValueError):
                        pass
                elif rc == 75:
                    # the worker asked to be replaced (its memory had grown): continue at the index it names
                    nxt = None
                    try:
                        for line in open(w['out'], errors='replace'):
                            if line.startswith('C '):
                                nxt = int(line.split()[1])
                    except (OSError, ValueError):
                        pass
                    agg['counters']['workers_recycled_for_memory'] = agg['counters'].get('workers_recycled_for_memory', 0) + 1
                    if nxt is not None and time.time() - tph < ph['budget']:
                        nw = start(w['i'], nxt)
                        nw['restarts'] = w['restarts']
                        pending.append(nw)
                elif rc != 0:
                    # the worker died: find the seed it was on, record a crash, restart after it
                    last_b = None
                    finished = set()
                    try:
                        for line in open(w['out'], errors='replace'):
                            if line.startswith('B '):
                                last_b = int(line.split()[1])
                            elif line[:2] in ('R ', 'I '):
                                finished.add(int(line.split()[1]))
                    except FileNotFoundError:
                        pass
                    tail = open(w['log'], errors='replace').read()[-6000:]
                    if rc == 2 and 'SIM-INFRA-ERROR' in tail:
                        infra_msgs.append(tail[-500:])
                    elif last_b is not None and last_b not in finished:
                        crashes.append((ph['variant'], last_b, rc, tail))
                        if w['restarts'] < 20 and time.time() - tph < ph['budget']:
                            idx = last_b - (base + ph['first']) + W
                            nw = start(w['i'], idx)
                            nw['restarts'] = w['restarts'] + 1
                            pending.append(nw)
                    else:
                        infra_msgs.append('worker exited rc=%d without a pending seed: %s' % (rc, tail[-300:]))
        # collect
        ph_runs = 0
        for outp in done_outs:
            try:
                f = open(outp, errors='replace')
            except FileNotFoundError:
                continue
            for line in f:
                t = line[:2]
                if t == 'R ':
                    parts = line.split()
                    ph_runs += 1
                    total_r_lines += 1
                    if parts[6] == '1':
                        nontrivial_runs += 1
                        distinct.add((parts[4], parts[5]))
                elif t == 'V ':
                    parts = line.rstrip('\n').split(' ', 4)
                    vlines.append((ph['variant'], int(parts[1]), parts[2], parts[3], parts[4] if len(parts) > 4 else ''))
                elif t == 'N ':
                    agg['nondet'] += 1
                    infra_msgs.append('non-reproducing failure: ' + line.strip())
                elif t == 'I ':
                    agg['infra'] += 1
                    infra_msgs.append('harness infra: ' + line.strip())
                elif t == 'S ':
                    try:
                        s = json.loads(line[2:])
                    except Exception as e:
                        infra_msgs.append('bad summary line: %s' % e)
                        continue
                    agg['runs'] += s['runs']; agg['steps_total'] += s['steps_total']; agg['steps_max'] = max(agg['steps_max'], s['steps_max'])
                    agg['switches_total'] += s['switches_total']; agg['threads_total'] += s['threads_total']
                    for k in ('counters', 'strategies', 'violation_classes'):
                        for a, b in s[k].items():
                            agg[k][a] = max(agg[k].get(a, 0), b) if a.startswith('max.') else agg[k].get(a, 0) + b
                    agg['variants'][s['variant']] = agg['variants'].get(s['variant'], 0) + s['runs']
                    if len(agg['samples']) < 3:
                        agg['samples'].extend(s['samples'][:3 - len(agg['samples'])])
        agg['phases'].append(dict(name=ph['name'], variant=ph['variant'], runs=ph_runs, wall_s=round(time.time() - tph, 2)))

    # ---- gate and classify violations --------------------------------------------------------
    reported, sim_faults = [], list(infra_msgs)   # known_hits already holds the listed findings whose stored reproducer failed
    seen_classes = {}
    for variant, vseed, planpath, cls, msg in vlines:
        key = (cls, re.sub(r'\d+', '#', msg)[:80])
        if seen_classes.get(key, 0) >= 2:
            continue
        seen_classes[key] = seen_classes.get(key, 0) + 1
        try:
            plan_text = open(planpath).read()
        except FileNotFoundError:
            sim_faults.append('missing plan file ' + planpath)
            continue
        lines = [l for l in plan_text.splitlines() if l.strip()]
        rep = run_replay(binaries[variant], lines, pid, tmpdir)
        if rep['kind'] != 'violation' or rep['cls'] != cls:
            sim_faults.append('seed %d: violation %s did not reproduce in a fresh process (%s)' % (vseed, cls, rep['kind']))
            continue
        hh = ''
        for l in lines:
            if l.startswith('expect.history_hash='):
                hh = l.split('=', 1)[1]
        hash_note = ''
        if hh and rep['hash'] != hh:
            # same violation class in a fresh process but another history: the run depends on what the worker process had
            # executed before (state kept across calls) -- reported, with the note, because the fresh-process replay stands on its own
            hash_note = ' [history differs between the worker process and a fresh process: the outcome depends on earlier calls in the same process]'
        jpath = os.path.join(VERIF, 'replays', '%s-%d.json' % (pid, vseed))
        json.dump(plan_to_replay_json(pid, engine, variant, vseed, plan_text, cls, rep['msg'], rep['hash']), open(jpath, 'w'), indent=1)
        try:
            os.unlink(planpath)
        except OSError:
            pass
        k = match_known(known, pid, cls, rep['msg'])
        if k:
            known_hits.setdefault(k['id'], dict(k=k, n=0, replay=jpath))['n'] += 1
        else:
            reported.append((jpath, cls, rep['msg'] + hash_note))

    # seeds a worker was still running when the driver cut it: each gets one run of its own with a generous wall clock
    for variant, oseed in overdue[:3]:
        binary = binaries[variant]
        r = sh([binary, 'genplan', '--seed', str(oseed), '--prop', pid, '--tier', tier], cwd=VERIF)
        lines = [l for l in r.stdout.splitlines() if l.strip()] + ['property=' + pid, 'seed=%d' % oseed]
        rep = run_replay(binary, lines, pid, tmpdir, timeout=900)
        agg['counters']['overdue_seeds_reexamined'] = agg['counters'].get('overdue_seeds_reexamined', 0) + 1
        if rep['kind'] in ('violation', 'crash'):
            jpath = os.path.join(VERIF, 'replays', '%s-%d.json' % (pid, oseed))
            json.dump(plan_to_replay_json(pid, engine, variant, oseed, '\n'.join(lines), rep['cls'], rep.get('msg', ''), rep.get('hash', '')), open(jpath, 'w'), indent=1)
            k = match_known(known, pid, rep['cls'], rep.get('msg', ''))
            if k:
                known_hits.setdefault(k['id'], dict(k=k, n=0, replay=jpath))['n'] += 1
            else:
                reported.append((jpath, rep['cls'], rep.get('msg', '') + ' [not minimised: the run outlasted its phase and was examined on its own]'))
        elif rep['kind'] != 'clean':
            sim_faults.append('seed %d: still running when its worker was cut, and no verdict within 900 s on its own (%s)' % (oseed, rep['kind']))
    seen_crash = {}
    crash_deadline = time.time() + float(os.environ.get('VERIF_CRASH_EXAM_S', '240'))
    crashes_not_examined = 0
    for variant, cseed, rc, tail in crashes:
        if time.time() > crash_deadline and (reported or known_hits):
            crashes_not_examined += 1   # enough wall clock spent re-examining dead workers; at least one is already reported
            continue
        binary = binaries[variant]
        r = sh([binary, 'genplan', '--seed', str(cseed), '--prop', pid, '--tier', tier], cwd=VERIF)
        lines = [l for l in r.stdout.splitlines() if l.strip()] + ['property=' + pid, 'seed=%d' % cseed]
        rep = run_replay(binary, lines, pid, tmpdir, timeout=180)
        if rep['kind'] not in ('crash', 'violation'):
            sim_faults.append('seed %d: worker died (rc=%d) but the seed neither crashes nor fails in isolation (%s)' % (cseed, rc, rep['kind']))
            continue
        # (a worker may also die while minimising an ordinary violation because a smaller candidate crashes the process;
        #  the seed itself then shows the ordinary violation here and is minimised below with every candidate in its own process)
        kind, cls = rep['kind'], rep['cls']
        if seen_crash.get(cls, 0) >= 2:
            seen_crash[cls] += 1
            continue
        seen_crash[cls] = seen_crash.get(cls, 0) + 1
        lines, nrer = minimise_isolated(binary, lines, pid, kind, cls, tmpdir)
        rep2 = run_replay(binary, lines, pid, tmpdir)
        if rep2['kind'] != kind or rep2['cls'] != cls:
            sim_faults.append('seed %d: %s %s did not reproduce after minimisation' % (cseed, kind, cls))
            continue
        jpath = os.path.join(VERIF, 'replays', '%s-%d.json' % (pid, cseed))
        d = plan_to_replay_json(pid, engine, variant, cseed, '\n'.join(lines), cls, rep2['msg'], rep2.get('hash', ''))
        d['expect']['minimise_reruns'] = nrer
        json.dump(d, open(jpath, 'w'), indent=1)
        k = match_known(known, pid, cls, rep2['msg'])
        if k:
            known_hits.setdefault(k['id'], dict(k=k, n=0, replay=jpath))['n'] += 1
        else:
            reported.append((jpath, cls, rep2['msg']))

    if crashes_not_examined:
        agg['counters']['dead_workers_not_reexamined'] = crashes_not_examined
    if not agg['samples']:
        # every worker summary was lost (e.g. all workers died): describe at least the first case of this run
        b0 = binaries[phases[0]['variant']]
        r = sh([b0, 'genplan', '--seed', str(seed * (1 << 20) + phases[0]['first']), '--prop', pid, '--tier', tier], cwd=VERIF)
        agg['samples'].append({'seed': seed * (1 << 20) + phases[0]['first'], 'plan': [l for l in r.stdout.splitlines() if l.strip()][:40], 'note': 'plan of the first seed of this run (worker summaries unavailable)'})
    wall = time.time() - t0
    # ---- evidence ------------------------------------------------------------------------------
    cov = {
        'evaluations': max(agg['runs'], total_r_lines),
        'distinct_nontrivial': len(distinct),
        'rule': RULES.get(pid, '') + ' A run is non-trivial when it had >= 2 live simulated threads, or >= 1 fired fault, or >= 2 operations on one object; '
                'distinct = distinct (configuration tuple, schedule signature) pairs among non-trivial runs, counted from the per-run result lines.',
        'samples': agg['samples'][:3],
        'nontrivial_runs': nontrivial_runs,
        'runs_per_hour': int(agg['runs'] / max(wall - build_s, 1e-3) * 3600),
        'seeds_per_hour': int(agg['runs'] / max(wall - build_s, 1e-3) * 3600),
        'sim_steps_total': agg['steps_total'], 'sim_steps_max': agg['steps_max'],
        'simulated_time': '%d simulated steps (instrumented memory accesses in the sim variant, basic-block edges in the asan variant) across all runs' % agg['steps_total'],
        'switches_total': agg['switches_total'], 'threads_created': agg['threads_total'],
        'faults_fired': {k[6:]: v for k, v in agg['counters'].items() if k.startswith('fault.')},
        'probes': {k[6:]: v for k, v in agg['counters'].items() if k.startswith('probe.')},
        'counters': {k: v for k, v in agg['counters'].items() if not k.startswith('fault.') and not k.startswith('probe.')},
        'strategies': agg['strategies'], 'variants': agg['variants'], 'phases': agg['phases'],
        'violation_classes_seen': agg['violation_classes'],
        'known_findings_confirmed': sorted(known_hits.keys()),
        'unmodelled_synchronisation': sorted(unmodelled),
        'real_vs_stub': REAL_VS_STUB,
        'build_s': round(build_s, 2),
        'repo': REPO,
    }
    if pid == 'C13':
        cov['exhaustive'] = False
        cov['grid_exhaustive'] = agg['counters'].get('grid.points', 0) >= 3 * GRID_MT
        cov['grid_points_run'] = agg['counters'].get('grid.points', 0)
    ev = {'property_id': pid, 'tier': tier, 'seed': seed, 'level': 'exploration', 'coverage': cov,
          'assumptions': ASSUMPTIONS.get(pid, []) + ['OpenBLAS restricted to one thread', 'accesses inside uninstrumented dependencies (LAPACK, SQLite, libc) are invisible to the race detector'],
          'wall_s': round(wall, 2), 'violations': len(reported)}
    evdir = os.path.join(VERIF, 'evidence') if os.path.realpath(REPO) == '/repo' else os.path.join(VERIF, 'build', 'tmp', 'evidence-other-repo')
    os.makedirs(evdir, exist_ok=True)
    json.dump(ev, open(os.path.join(evdir, pid + '.json'), 'w'), indent=1)
    shutil.rmtree(tmpdir, ignore_errors=True)

    for kid, h in sorted(known_hits.items()):
        print('KNOWN-FINDING: property=%s %s (%s; %d runs; replay=%s)' % (pid, h['k']['what'], kid, h['n'], h['replay']))
    for jpath, cls, msg in reported:
        print('VIOLATION property=%s replay=%s class=%s %s' % (pid, jpath, cls, msg))
    for m in sim_faults[:10]:
        print('SIMULATOR-FAULT: ' + m)
    print('%s %s: %d runs, %d distinct non-trivial, %d violations, %d known findings, %.1fs' % (pid, tier, max(agg['runs'], total_r_lines), len(distinct), len(reported), len(known_hits), wall))
    sys.stdout.flush()
    if reported:
        return 1
    if sim_faults:
        return 2
    if max(agg['runs'], total_r_lines) == 0:
        print('no runs executed')
        return 2
    return 0

def minimise_isolated(binary, lines, pid, kind, cls, tmpdir, budget=150):
    """class-preserving greedy minimisation for runs that kill the process: every candidate runs in a fresh process.
    Bounded in wall-clock time too (VERIF_MINIMISE_S, default 90 s): a candidate may hang until its own timeout."""
    n = 0
    improved = True
    wall = float(os.environ.get('VERIF_MINIMISE_S', '90'))
    t_end = time.time() + wall
    while improved and n < budget and time.time() < t_end:
        improved = False
        pf = os.path.join(tmpdir, 'shr-%d.plan' % os.getpid())
        open(pf, 'w').write('\n'.join(lines) + '\n')
        r = sh([binary, 'shrink', '--plan', pf, '--prop', pid], cwd=VERIF)
        cands = [c.strip().split('\n') for c in r.stdout.split('\n--\n') if c.strip()]
        for c in cands:
            if n >= budget or time.time() >= t_end:
                break
            n += 1
            rep = run_replay(binary, c, pid, tmpdir, timeout=max(5, min(120, t_end - time.time())))
            if rep['kind'] == kind and rep['cls'] == cls:
                lines = c
                improved = True
                break
    return lines, n

def replay_file(path):
    d = json.load(open(path))
    pid, engine, variant = d['property'], d['engine'], d['variant']
    binary, _ = build(variant, engine)
    tmpdir = os.path.join(VERIF, 'build', 'tmp', 'replay-%d' % os.getpid())
    rep = run_replay(binary, d['plan'], pid, tmpdir)
    shutil.rmtree(tmpdir, ignore_errors=True)
    if rep['kind'] == 'violation':
        print('VIOLATION property=%s replay=%s class=%s %s' % (pid, path, rep['cls'], rep['msg']))
        if d.get('expect', {}).get('history_hash') and rep['hash'] != d['expect']['history_hash']:
            print('note: history hash %s differs from recorded %s (tree changed?)' % (rep['hash'], d['expect']['history_hash']))
        return 1
    if rep['kind'] == 'crash':
        print('VIOLATION property=%s replay=%s class=%s %s' % (pid, path, rep['cls'], rep['msg']))
        return 1
    if rep['kind'] == 'clean':
        print('REPLAY-CLEAN property=%s replay=%s' % (pid, path))
        return 0
    print('REPLAY-INFRA', rep.get('msg', ''))
    return 2

RULES = {
    'C13': 'Indices 0..2*14760-1 enumerate every (kernel, rows 0..40, threads 1..24) triple for 15 multithreaded kernels under S0 and S1 in the sim variant, and once more in the asan variant; further indices draw random kernels, shapes up to 60x10, thread counts 1..24 and strategies S0-S4.',
}
RULES.update({
    'C06': 'Each seed draws a data set (6..24 x 1..5, 1..2 responses or class labels), a learner (PLS/MLR/LDA), a routine (BootstrapRandomGroupsCV, YScrambling over LOO / over bootstrap, KMeansRandomGroupsCV, PCARankValidation, concurrent group-generator callers), a thread count (bootstrap: a divisor of the iteration count), a simulated processor count, a strategy S0-S4, a clock origin and optionally a concurrent noise caller of the generator API; three simulated executions per seed (sequential reference, canonical schedule, explored schedule).',
    'C05': 'Each seed draws a data set (6..30 x 1..6, 1..3 responses), a learner, a routine (LeaveOneOut, KFoldCV with balanced/unbalanced/non-contiguous user labels, BootstrapRandomGroupsCV, direct calls of the group generators), group/iteration/thread counts and a schedule; oracles: partition, public-API refit on the other folds, own-response insensitivity, fold inference for one-iteration bootstrap, finite predictions, residual definition.',
    'C18': 'Each seed draws a routine (PCA, PLS, CPCA, LeaveOneOut with MLR, KMeans with every initialiser, NelderMeadSimplex), a degeneracy class (rank-deficient integer outer products, constant columns, all-constant, duplicated rows, tiny shapes, more components than rank, constant / two-valued responses, constant block, duplicated points, flat objective), shape, component count, scaling, optional 2^-k perturbation and a simulated processor count; the call runs under a step budget of 20000 x (steps of the same routine on a regular problem of the same shape, measured in the same run) + 1e6, and is unwound in-process when the budget is exhausted.',
    'C14': 'Each seed draws a history of 1..40 operations over pools of 4 live containers per kind (matrix, dvector, uivector, ivector, strvector, tensor, dvectorlist; a random subset of kinds is enabled per run): create, resize, copy into fresh and live destinations, append rows/columns whose length is drawn around the current shape (zero, shorter, equal, longer), delete, set/get in and out of range, extend, sort, remove, re-initialise. The allocator hands out NaN-garbage-filled blocks, moves blocks on realloc by a per-run coin, and in 20% of the histories fails the k-th allocation of one operation. After every operation all 28 containers are compared cell by cell with std::vector shadows. ASan+UBSan build.',
    'C17': 'Each seed draws 3..80 objects x 1..6 variables in general position, an algorithm (MDC, MaxDis + MaxDis_Fast, KMeansppCenters after srand_, KMeans with initialiser 0..3, the random one seeded), selection size / cluster count, metric, nthreads 1..8 and a strategy S0-S3; two simulated executions per seed (one worker canonical schedule; requested thread count under the explored schedule and another clock origin).',
    'C01': 'Each seed draws a matrix (2..60 x 1..25, small shapes more often; column spreads 0.1..1000, offsets 1e-2..1e4 of either sign, optional exactly-constant columns), a scaling option -1..5, a component count 1..rank (rank by a long-double oracle with a clear pivot gap), a simulated processor count from {1,2,3,4,5,7,8,16,24, rows+1, cols+1} and a worker strategy S0-S3; three fits per seed (1 processor; N processors canonical order; N processors explored schedule).',
    'C02': 'Each seed draws U diag(s) V^T + offsets with random orthogonal U, V (Householder products in long double) and eigenvalue ratios <= 0.85, a scaling option, a component count, a simulated processor count and a schedule; oracle: cyclic-Jacobi eigen-decomposition of E^T E in long double, tolerance derived from the documented convergence criterion; one equivariance transform (object permutation, variable permutation, rotation of unscaled data) per seed.',
    'C09': 'Each seed draws 2..4 blocks of 1..8 variables cut from U diag(s) V^T + offsets (separated spectrum on the concatenation), 5..30 objects, scaling 0..5, 1..min width components, a simulated processor count 1..8 and a schedule; the comparator is the library PCA on the identically preprocessed, 1/sqrt(width)-scaled concatenation, plus a Jacobi oracle for the eigenvalue ratios that set the tolerance.',
    'C16': 'Each seed draws a pool of 2..4 PCA/CPCA/PLS models (fitted on data scaled by 1e-9..1e9, or synthetic with fields of those magnitudes and empty optional fields) and a history of 1..5 Write/Read operations over 1..2 paths; 40% of histories attach one fault to one write (I/O error, disk full, short write, kill with or without torn last write) at a VFS call drawn uniformly over the call count of that very operation (measured by a dry run on a copy). Reads are checked against a reference map path -> last write that completed without a fault.',
})
ASSUMPTIONS = {
    'C01': ['library preprocessing (C10, not claimed) is trusted to produce the preprocessed matrix', 'inputs are sampled; what the simulator decides is the processor-count / schedule axis', 'variance bookkeeping tolerance tau = 200*npc*sqrt(n*PCACONVERGENCE) percent points (the stored eigenvalue is t^T t before the last update)'],
    'C02': ['components whose eigenvalue is below what inexact deflation of earlier components can leave behind are skipped (counted)', 'angle tolerance eps_k = 10(k+1)sqrt(n*1e-10)/((1-rho)/2), rho the largest eigenvalue ratio among the requested components (Jacobi oracle)'],
    'C09': ['same tolerance derivation as C02; components below deflation noise are skipped (counted)'],
    'C17': ['max-min and farthest-from-centroid checks are skipped (counted) when the top two candidates tie to 1e-9 relative', 'the nearest-centroid check uses the documented stop rule slack 2*sqrt(cols)*1e-3 and is skipped when the number of labelling sweeps may have reached the cap of 100', 'cosine "distance" is the quantity metricspace.c computes (a similarity); the oracle uses the same definition'],
    'C14': ['leaks are not violations', 'UBSan nonnull-attribute (qsort(NULL,0), memcpy(NULL,..,0)) is disabled: no memory is touched', 'UBSan float-cast-overflow is disabled: (size_t)(-1.0) on fold-matrix padding is SIZE_MAX on this platform and touches no memory', 'NewStrVector(n>0) and NewDVectorList(n>0) are not generated (their elements are documented as to-be-filled by the caller)', 'TensorAppendRow is not generated (its own check contradicts its name)'],
    'C18': ['a call that uses more than 20000 times the steps of a regular call of the same shape is declared non-terminating (largest ratio observed for terminating calls is reported under counters max.steps_ratio_to_regular.*)', 'numerical rank is decided by a long-double elimination with a clear pivot gap; ambiguous cases skip the rank-dependent checks'],
    'C16': ['durability across power loss is not asserted (the property does not quantify over crash points)', 'a path whose last write was faulted is indeterminate until the next clean write and is not read', 'failed opens of the database file itself are not injected (the library does not survive them; not a C16 matter)'],
    'C06': ['for fork-join code a race-free execution on an input implies schedule independence on that input (Feng-Leiserson); unknown synchronisation primitives downgrade race reports'],
}

if __name__ == '__main__':
    sys.exit(main())
