// Deterministic simulator core: scheduler (baton passing over real pthreads), step clock,
// happens-before determinacy-race detector, simulated machine (processor count, wall clock),
// allocator seam, abort capture.  See DESIGN.md section 2.
//
// Exactly one simulated thread runs at any time, so none of the global state below needs locks;
// the semaphores used for baton passing provide the memory ordering between real threads.
#include "sim.h"
#include "prng.hpp"

#include <pthread.h>
#include <semaphore.h>
#include <setjmp.h>
#include <stdio.h>
#include <stdlib.h>
#include <string.h>
#include <unistd.h>
#include <dlfcn.h>
#include <malloc.h>
#include <sys/mman.h>
#include <time.h>
#include <math.h>
#include <signal.h>
#include <execinfo.h>
#include <elf.h>
#include <string>
#include <vector>
#include <unordered_map>
#include <unordered_set>
#include <algorithm>

#define MAXSLOT 96
#define STACK_BYTES (4u << 20)

namespace {

enum { ST_RUNNABLE = 0, ST_BLOCKED = 1, ST_FINISHED = 2 };

struct SimThread {
  int tid, slot, state, wait_for;
  sem_t sem;
  pthread_t real;
  bool has_real, joined, is_main;
  void *(*fn)(void *);
  void *arg, *ret;
  uint64_t steps;  // instrumented steps executed by this thread
  uint64_t ndec;   // non-access decisions taken by this thread
  uint64_t prio;
  uint32_t vc[MAXSLOT];
};

struct Acc {
  uint32_t epoch;  // 0 = empty
  uint32_t pcidx;
  uint8_t slot, mask;
  uint16_t tid16;
};

struct Cell {
  uint64_t key;
  uint32_t gen;
  uint8_t nr;
  Acc w[2];
  Acc r[4];
  int32_t ovf;
};

// ---- global simulator state -------------------------------------------------------------
sim_cfg g_cfg;
bool g_active = false;
std::vector<SimThread *> g_threads;
std::vector<int> g_runnable;
SimThread *g_main = nullptr;
__thread SimThread *tl_self = nullptr;

bool g_slot_used[MAXSLOT];
uint32_t g_slot_last[MAXSLOT];
void *g_slot_stack[MAXSLOT];

uint64_t g_steps = 0, g_total_steps = 0, g_step_limit = 0;
uint64_t g_nswitch = 0, g_ncreated = 0;
int g_live = 1, g_max_live = 1;
uint64_t g_hist = 0, g_sig = 0;
std::vector<sim_switch> g_switches;
std::unordered_map<uint64_t, int> g_replay;  // key -> next

Prng g_sched_rng, g_alloc_rng;
uint64_t g_preempt_countdown = 0;
std::vector<uint64_t> g_pct_points;
size_t g_pct_next = 0;

volatile int g_unwind = 0;  // SIM_ABORTED / SIM_CEILING while unwinding
int g_last_unwind = 0;
sigjmp_buf g_jmp;
bool g_guard = false;
int g_unjoined = 0;

// machine
uint64_t g_clock_reads = 0;
// allocator
uint64_t g_allocs = 0, g_alloc_fail_at = 0, g_alloc_failures = 0, g_realloc_moves = 0, g_alloc_seq = 0;

// race detector
std::vector<Cell> g_cells;
uint32_t g_gen = 1;
size_t g_cells_live = 0;
std::vector<std::vector<Acc>> g_ovf;
std::vector<uintptr_t> g_pcs;
std::unordered_map<uintptr_t, uint32_t> g_pcidx;
struct RaceKey { uint32_t a, b; bool operator==(const RaceKey &o) const { return a == o.a && b == o.b; } };
struct RaceKeyH { size_t operator()(const RaceKey &k) const { return ((size_t)k.a << 32) ^ k.b; } };
std::unordered_map<RaceKey, size_t, RaceKeyH> g_race_idx;
std::vector<sim_race> g_race_list;
uint64_t g_races = 0;
std::unordered_set<uintptr_t> g_conflict_pcs;

inline void hist(uint64_t v) { g_hist = (g_hist ^ v) * 0x100000001b3ULL + 0x9e3779b97f4a7c15ULL; }
inline void sig(uint64_t v) { g_sig = (g_sig ^ v) * 0x100000001b3ULL + 0x632be59bd9b4e019ULL; }

[[noreturn]] void infra(const char *msg) {
  fprintf(stderr, "SIM-INFRA-ERROR: %s\n", msg);
  fflush(stderr);
  _exit(2);
}

SimThread *self() {
  if (!tl_self) {
    if (!g_main) {
      g_main = new SimThread();
      memset(g_main, 0, sizeof(*g_main));
      sem_init(&g_main->sem, 0, 0);
      g_main->is_main = true;
      g_main->tid = 0;
      g_main->slot = 0;
      g_main->vc[0] = 1;
      g_slot_used[0] = true;
      g_threads.clear();
      g_threads.push_back(g_main);
      g_runnable.clear();
      g_runnable.push_back(0);
    }
    tl_self = g_main;  // any thread not created through the simulator is the caller
  }
  return tl_self;
}

void make_runnable(SimThread *t) {
  t->state = ST_RUNNABLE;
  g_runnable.push_back(t->tid);
}
void remove_runnable(int tid) {
  for (size_t i = 0; i < g_runnable.size(); i++)
    if (g_runnable[i] == tid) { g_runnable.erase(g_runnable.begin() + i); return; }
}
int lowest_runnable() {
  int best = -1;
  for (int t : g_runnable) if (best < 0 || t < best) best = t;
  return best;
}
int random_runnable(int exclude) {
  int n = 0;
  for (int t : g_runnable) if (t != exclude) n++;
  if (!n) return exclude;
  int k = (int)g_sched_rng.below(n);
  for (int t : g_runnable) if (t != exclude) { if (!k) return t; k--; }
  return exclude;
}
int highest_prio_runnable() {
  int best = -1; uint64_t bp = 0;
  for (int t : g_runnable) { uint64_t p = g_threads[t]->prio; if (best < 0 || p > bp || (p == bp && t < best)) { best = t; bp = p; } }
  return best;
}

inline uint64_t replay_key(int tid, uint64_t tstep, int kind) { return ((uint64_t)tid << 44) ^ (tstep << 2) ^ (uint64_t)kind; }

// the central decision: who runs next.  `cur_runnable` says whether the deciding thread itself may continue.
int decide(SimThread *me, int kind, bool cur_runnable, uintptr_t pc) {
  int dflt = cur_runnable ? me->tid : lowest_runnable();
  if (g_runnable.empty()) return -1;
  uint64_t keystep = (kind == SIM_K_ACCESS) ? me->steps : me->ndec;
  int next = dflt;
  switch (g_active ? g_cfg.strategy : SIM_S0_SEQUENTIAL) {
    case SIM_S0_SEQUENTIAL: break;
    case SIM_S1_PERMUTED:
      if (!cur_runnable) next = random_runnable(-1);
      break;
    case SIM_S2_RANDOM:
      if (kind == SIM_K_ACCESS) next = random_runnable(me->tid);
      else if (!cur_runnable) next = random_runnable(-1);
      else if (g_sched_rng.chance(0.5)) next = random_runnable(-1);
      break;
    case SIM_S3_PCT:
      next = highest_prio_runnable();
      break;
    case SIM_S4_CONFLICT:
      if (kind == SIM_K_ACCESS) next = random_runnable(me->tid);
      else if (!cur_runnable) next = random_runnable(-1);
      else if (g_sched_rng.chance(0.5)) next = random_runnable(-1);
      break;
    case SIM_REPLAY: {
      auto it = g_replay.find(replay_key(me->tid, keystep, kind));
      if (it != g_replay.end()) {
        int cand = it->second;
        if (cand >= 0 && cand < (int)g_threads.size() && g_threads[cand] && g_threads[cand]->state == ST_RUNNABLE) next = cand;
      }
      break;
    }
  }
  if (next < 0) next = dflt;
  if (next != dflt) {
    sim_switch s; s.tid = me->tid; s.tstep = keystep; s.kind = kind; s.next = next;
    g_switches.push_back(s);
    sig(((uint64_t)me->tid << 40) ^ ((uint64_t)kind << 36) ^ ((uint64_t)next << 20) ^ (uint64_t)pc);
  }
  if (next != me->tid) { g_nswitch++; hist(0x5157ULL ^ ((uint64_t)me->tid << 32) ^ ((uint64_t)next << 8) ^ kind ^ (keystep << 12)); }
  if (kind != SIM_K_ACCESS) me->ndec++;
  return next;
}

void pass_baton(SimThread *me, int next, bool wait) {
  if (next == me->tid) return;
  SimThread *n = g_threads[next];
  sem_post(&n->sem);
  if (wait) {
    while (sem_wait(&me->sem) != 0) {}
  }
}

[[noreturn]] void retire_current(SimThread *me);

void thread_finish(SimThread *me) {
  me->state = ST_FINISHED;
  remove_runnable(me->tid);
  g_slot_last[me->slot] = me->vc[me->slot];
  g_live--;
  hist(0xE817ULL ^ ((uint64_t)me->tid << 16));
  for (SimThread *t : g_threads)
    if (t && t->state == ST_BLOCKED && t->wait_for == me->tid) make_runnable(t);
  int next = decide(me, SIM_K_EXIT, false, 0);
  if (next < 0) infra("no runnable thread at thread exit (deadlock)");
  sem_post(&g_threads[next]->sem);
}

void *trampoline(void *p) {
  SimThread *me = (SimThread *)p;
  tl_self = me;
  while (sem_wait(&me->sem) != 0) {}
  if (!g_unwind) me->ret = me->fn(me->arg);
  thread_finish(me);
  return nullptr;
}

void retire_current(SimThread *me) {
  thread_finish(me);
  pthread_exit(nullptr);
}

int alloc_slot(SimThread *creator) {
  for (int s = 1; s < MAXSLOT; s++)
    if (!g_slot_used[s] && creator->vc[s] >= g_slot_last[s]) return s;
  return -1;
}

// block the calling thread until `tid` finishes
void wait_finished(SimThread *me, int tid) {
  SimThread *c = g_threads[tid];
  while (c->state != ST_FINISHED) {
    me->state = ST_BLOCKED;
    me->wait_for = tid;
    remove_runnable(me->tid);
    int next = decide(me, SIM_K_JOIN, false, 0);
    if (next < 0) infra("join with no runnable thread (deadlock)");
    pass_baton(me, next, true);
    me->state = ST_RUNNABLE;  // re-added to runnable by thread_finish(make_runnable)
  }
}

void reap(SimThread *c) {
  if (c->has_real && !c->joined) {
    pthread_join(c->real, nullptr);
    c->joined = true;
    g_slot_used[c->slot] = false;
  }
}

// main thread: let every other thread run to completion (used while unwinding and for unjoined threads)
void drain_all(SimThread *me) {
  for (size_t i = 1; i < g_threads.size(); i++) {
    SimThread *c = g_threads[i];
    if (!c) continue;
    if (c->state != ST_FINISHED) wait_finished(me, (int)i);
    for (int s = 0; s < MAXSLOT; s++) if (c->vc[s] > me->vc[s]) me->vc[s] = c->vc[s];
    reap(c);
    sem_destroy(&c->sem);
    delete c;
    g_threads[i] = nullptr;
  }
}

// called at every scheduling-relevant point by a thread that discovers an unwind in progress
void unwind_here(SimThread *me) {
  if (!me->is_main) retire_current(me);
  // main: let the others retire, then jump back to the guard
  drain_all(me);
  if (!g_guard) {
    fprintf(stderr, "SIM: library aborted outside a guarded call\n");
    fflush(stderr);
    _exit(3);
  }
  siglongjmp(g_jmp, g_unwind);
}

// ---- race detector ------------------------------------------------------------------------
uint32_t pc_index(uintptr_t pc) {
  auto it = g_pcidx.find(pc);
  if (it != g_pcidx.end()) return it->second;
  uint32_t i = (uint32_t)g_pcs.size();
  g_pcs.push_back(pc);
  g_pcidx.emplace(pc, i);
  return i;
}

void cells_grow() {
  std::vector<Cell> old;
  old.swap(g_cells);
  size_t ncap = old.empty() ? (1u << 16) : old.size() * 2;
  g_cells.assign(ncap, Cell());
  for (auto &c : g_cells) { c.gen = 0; c.ovf = -1; }
  g_cells_live = 0;
  for (auto &c : old) {
    if (c.gen != g_gen) continue;
    size_t m = ncap - 1, i = (size_t)((c.key * 0x9e3779b97f4a7c15ULL) >> 20) & m;
    while (g_cells[i].gen == g_gen) i = (i + 1) & m;
    g_cells[i] = c;
    g_cells_live++;
  }
}

Cell *cell_get(uint64_t key, bool create) {
  if (g_cells.empty()) cells_grow();
  size_t m = g_cells.size() - 1, i = (size_t)((key * 0x9e3779b97f4a7c15ULL) >> 20) & m;
  while (true) {
    Cell &c = g_cells[i];
    if (c.gen != g_gen) {
      if (!create) return nullptr;
      if ((g_cells_live + 1) * 2 > g_cells.size()) { cells_grow(); return cell_get(key, create); }
      c.key = key; c.gen = g_gen; c.nr = 0; c.ovf = -1;
      c.w[0].epoch = c.w[1].epoch = 0;
      g_cells_live++;
      return &c;
    }
    if (c.key == key) return &c;
    i = (i + 1) & m;
  }
}

// static functions and file-scope statics are not in the dynamic symbol table: read .symtab of the (non-PIE) executable once
struct ElfSym { uintptr_t addr, size; std::string name; };
std::vector<ElfSym> g_elfsyms;
bool g_elfsyms_loaded = false;
void load_elf_symbols() {
  g_elfsyms_loaded = true;
  FILE *f = fopen("/proc/self/exe", "rb");
  if (!f) return;
  Elf64_Ehdr eh;
  if (fread(&eh, sizeof eh, 1, f) != 1 || memcmp(eh.e_ident, ELFMAG, SELFMAG) != 0 || eh.e_ident[EI_CLASS] != ELFCLASS64) { fclose(f); return; }
  std::vector<Elf64_Shdr> sh(eh.e_shnum);
  if (fseek(f, (long)eh.e_shoff, SEEK_SET) != 0 || fread(sh.data(), sizeof(Elf64_Shdr), sh.size(), f) != sh.size()) { fclose(f); return; }
  for (auto &shd : sh) {
    if (shd.sh_type != SHT_SYMTAB || shd.sh_link >= sh.size()) continue;
    std::vector<Elf64_Sym> syms(shd.sh_size / sizeof(Elf64_Sym));
    std::vector<char> str(sh[shd.sh_link].sh_size);
    if (fseek(f, (long)shd.sh_offset, SEEK_SET) != 0 || fread(syms.data(), sizeof(Elf64_Sym), syms.size(), f) != syms.size()) break;
    if (fseek(f, (long)sh[shd.sh_link].sh_offset, SEEK_SET) != 0 || fread(str.data(), 1, str.size(), f) != str.size()) break;
    for (auto &sy : syms) {
      int t = ELF64_ST_TYPE(sy.st_info);
      if ((t != STT_FUNC && t != STT_OBJECT && t != STT_TLS) || sy.st_value == 0 || sy.st_name >= str.size()) continue;
      if (t == STT_TLS) continue;
      g_elfsyms.push_back({(uintptr_t)sy.st_value, (uintptr_t)(sy.st_size ? sy.st_size : 1), std::string(&str[sy.st_name])});
    }
  }
  fclose(f);
  std::sort(g_elfsyms.begin(), g_elfsyms.end(), [](const ElfSym &x, const ElfSym &y) { return x.addr < y.addr; });
}
bool elf_lookup(uintptr_t a, std::string &name, uintptr_t &off) {
  if (!g_elfsyms_loaded) load_elf_symbols();
  size_t lo = 0, hi = g_elfsyms.size();
  while (lo < hi) { size_t mid = (lo + hi) / 2; if (g_elfsyms[mid].addr <= a) lo = mid + 1; else hi = mid; }
  if (lo == 0) return false;
  const ElfSym &s = g_elfsyms[lo - 1];
  if (a >= s.addr + s.size) return false;
  name = s.name; off = a - s.addr;
  return true;
}

void symbolise(uintptr_t a, char *out, size_t n, bool is_code) {
  { std::string nm; uintptr_t off; if (elf_lookup(a, nm, off)) { snprintf(out, n, "%s+0x%lx", nm.c_str(), (unsigned long)off); return; } }
  Dl_info di;
  if (dladdr((void *)a, &di) && di.dli_sname) {
    snprintf(out, n, "%s+0x%lx", di.dli_sname, (unsigned long)(a - (uintptr_t)di.dli_saddr));
  } else {
    snprintf(out, n, "%s", is_code ? "?" : "heap-or-stack");
  }
}

void report_race(SimThread *me, const Acc &prev, bool prev_write, bool cur_write, uintptr_t pc, uintptr_t addr) {
  g_races++;
  uint32_t pi = pc_index(pc);
  RaceKey k{prev.pcidx, pi};
  g_conflict_pcs.insert(pc);
  g_conflict_pcs.insert(g_pcs[prev.pcidx]);
  auto it = g_race_idx.find(k);
  if (it != g_race_idx.end()) { g_race_list[it->second].count++; return; }
  if (g_race_list.size() >= 256) return;
  sim_race r;
  memset(&r, 0, sizeof r);
  symbolise(g_pcs[prev.pcidx], r.site_a, sizeof r.site_a, true);
  symbolise(pc, r.site_b, sizeof r.site_b, true);
  symbolise(addr, r.object, sizeof r.object, false);
  r.write_a = prev_write; r.write_b = cur_write;
  r.tid_a = prev.tid16; r.tid_b = me->tid;
  r.count = 1;
  g_race_idx.emplace(k, g_race_list.size());
  g_race_list.push_back(r);
}

inline bool hb(const SimThread *me, const Acc &a) { return a.slot == me->slot || me->vc[a.slot] >= a.epoch; }

void detect_one(SimThread *me, uintptr_t addr, unsigned off, unsigned size, bool write, uintptr_t pc) {
  uint8_t mask = (uint8_t)(((1u << size) - 1u) << off);
  Cell *c = cell_get(addr >> 3, true);
  uint32_t ep = me->vc[me->slot];
  Acc cur; cur.epoch = ep; cur.slot = (uint8_t)me->slot; cur.mask = mask; cur.tid16 = (uint16_t)me->tid; cur.pcidx = 0;
  bool need_pc = true;
  for (int h = 0; h < 2; h++) {
    uint8_t hm = h ? 0xF0 : 0x0F;
    if (!(mask & hm)) continue;
    Acc &w = c->w[h];
    if (w.epoch && (w.mask & mask) && !hb(me, w)) report_race(me, w, true, write, pc, addr);
  }
  Acc *rs = c->r; int nr = c->nr;
  std::vector<Acc> *ov = c->ovf >= 0 ? &g_ovf[c->ovf] : nullptr;
  if (write) {
    for (int i = 0; i < nr; i++) if ((rs[i].mask & mask) && !hb(me, rs[i])) report_race(me, rs[i], false, true, pc, addr);
    if (ov) for (auto &a : *ov) if ((a.mask & mask) && !hb(me, a)) report_race(me, a, false, true, pc, addr);
    // drop reads covered by this write
    int k = 0;
    for (int i = 0; i < nr; i++) if (rs[i].mask & ~mask) rs[k++] = rs[i];
    c->nr = (uint8_t)k;
    if (ov) { size_t j = 0; for (size_t i = 0; i < ov->size(); i++) if ((*ov)[i].mask & ~mask) (*ov)[j++] = (*ov)[i]; ov->resize(j); }
    if (need_pc) { cur.pcidx = pc_index(pc); need_pc = false; }
    for (int h = 0; h < 2; h++) {
      uint8_t hm = h ? 0xF0 : 0x0F;
      if (!(mask & hm)) continue;
      Acc &w = c->w[h];
      uint8_t part = mask & hm;
      if (!w.epoch || !(w.mask & ~part) || hb(me, w)) { w = cur; w.mask = part; }
      // else: an unordered earlier write to other bytes of this half stays recorded (no false positive)
    }
  } else {
    // same-thread same-epoch read already present and covering: nothing to do
    for (int i = 0; i < nr; i++) if (rs[i].slot == cur.slot && rs[i].epoch == ep && !(mask & ~rs[i].mask)) return;
    cur.pcidx = pc_index(pc);
    // replace entries that are ordered before this read and covered by it
    int k = 0; bool placed = false;
    for (int i = 0; i < nr; i++) {
      if (!(rs[i].mask & ~mask) && hb(me, rs[i])) { if (!placed) { rs[k++] = cur; placed = true; } }
      else rs[k++] = rs[i];
    }
    nr = k;
    if (!placed) {
      if (nr < 4) rs[nr++] = cur;
      else {
        if (c->ovf < 0) { c->ovf = (int32_t)g_ovf.size(); g_ovf.emplace_back(); }
        auto &v = g_ovf[c->ovf];
        bool done = false;
        for (auto &a : v) if (!(a.mask & ~mask) && hb(me, a)) { a = cur; done = true; break; }
        if (!done && v.size() < 128) v.push_back(cur);
      }
    }
    c->nr = (uint8_t)nr;
  }
}

void shadow_reset(uintptr_t p, size_t n) {
  if (!g_active || !g_cfg.detect_races || g_cells.empty() || n == 0) return;
  uint64_t a = p >> 3, b = (p + n - 1) >> 3;
  if (b - a > (1u << 22)) return;
  for (uint64_t k = a; k <= b; k++) {
    Cell *c = cell_get(k, false);
    if (c) { c->nr = 0; c->w[0].epoch = c->w[1].epoch = 0; if (c->ovf >= 0) g_ovf[c->ovf].clear(); }
  }
}

// ---- the per-step hook ----------------------------------------------------------------------
inline void step_common(SimThread *me, uintptr_t pc, bool conflict_site_known, bool is_conflict_site) {
  me->steps++;
  g_steps++;
  if (g_unwind) unwind_here(me);
  if (g_step_limit && g_steps > g_step_limit) {
    g_unwind = SIM_CEILING;
    unwind_here(me);
  }
  if (g_runnable.size() < 2) return;
  switch (g_cfg.strategy) {
    case SIM_S2_RANDOM:
      if (g_preempt_countdown-- == 0) {
        double u = g_sched_rng.unit(); if (u < 1e-12) u = 1e-12;
        g_preempt_countdown = (uint64_t)(log(u) / log(1.0 - g_cfg.preempt_p));
        int next = decide(me, SIM_K_ACCESS, true, pc);
        pass_baton(me, next, true);
        if (g_unwind) unwind_here(me);
      }
      break;
    case SIM_S3_PCT:
      if (g_pct_next < g_pct_points.size() && g_steps >= g_pct_points[g_pct_next]) {
        me->prio = g_pct_points.size() - g_pct_next;  // lower than every initial priority
        g_pct_next++;
        int next = decide(me, SIM_K_ACCESS, true, pc);
        pass_baton(me, next, true);
        if (g_unwind) unwind_here(me);
      }
      break;
    case SIM_S4_CONFLICT:
      if ((conflict_site_known ? is_conflict_site : g_conflict_pcs.count(pc) != 0) && g_sched_rng.chance(0.5)) {
        int next = decide(me, SIM_K_ACCESS, true, pc);
        pass_baton(me, next, true);
        if (g_unwind) unwind_here(me);
      }
      break;
    case SIM_REPLAY:
      if (!g_replay.empty()) {
        auto it = g_replay.find(replay_key(me->tid, me->steps, SIM_K_ACCESS));
        if (it != g_replay.end()) {
          int next = decide(me, SIM_K_ACCESS, true, pc);
          pass_baton(me, next, true);
          if (g_unwind) unwind_here(me);
        }
      }
      break;
    default: break;
  }
}

inline void on_access(uintptr_t addr, unsigned size, bool write, uintptr_t pc) {
  if (!g_active) return;
  SimThread *me = self();
  if (g_cfg.detect_races) {
    unsigned off = addr & 7;
    if (off + size <= 8) detect_one(me, addr, off, size, write, pc);
    else {
      unsigned first = 8 - off;
      detect_one(me, addr, off, first, write, pc);
      unsigned rest = size - first; uintptr_t a2 = addr + first;
      while (rest) { unsigned n = rest > 8 ? 8 : rest; detect_one(me, a2, 0, n, write, pc); a2 += n; rest -= n; }
    }
  }
  step_common(me, pc, false, false);
}

void on_range(uintptr_t addr, size_t n, bool write, uintptr_t pc) {
  if (!g_active || n == 0) return;
  SimThread *me = self();
  if (g_cfg.detect_races) {
    uintptr_t a = addr, end = addr + n;
    while (a < end) {
      unsigned off = a & 7; unsigned sz = (unsigned)std::min<uintptr_t>(8 - off, end - a);
      detect_one(me, a, off, sz, write, pc);
      a += sz;
    }
  }
  step_common(me, pc, false, false);
}

}  // namespace

// =============================================================================================
extern "C" void __asan_init(void) __attribute__((weak));
static bool __asan_init_weak_present() { return __asan_init != nullptr; }

extern "C" {

// ---- instrumentation entry points (sim variant: -fsanitize=thread without the TSan runtime) ----
#define PC ((uintptr_t)__builtin_return_address(0))
void __tsan_init(void) {}
void __tsan_func_entry(void *) {}
void __tsan_func_exit(void) {}
void __tsan_read1(void *a) { on_access((uintptr_t)a, 1, false, PC); }
void __tsan_read2(void *a) { on_access((uintptr_t)a, 2, false, PC); }
void __tsan_read4(void *a) { on_access((uintptr_t)a, 4, false, PC); }
void __tsan_read8(void *a) { on_access((uintptr_t)a, 8, false, PC); }
void __tsan_read16(void *a) { on_access((uintptr_t)a, 16, false, PC); }
void __tsan_write1(void *a) { on_access((uintptr_t)a, 1, true, PC); }
void __tsan_write2(void *a) { on_access((uintptr_t)a, 2, true, PC); }
void __tsan_write4(void *a) { on_access((uintptr_t)a, 4, true, PC); }
void __tsan_write8(void *a) { on_access((uintptr_t)a, 8, true, PC); }
void __tsan_write16(void *a) { on_access((uintptr_t)a, 16, true, PC); }
void __tsan_unaligned_read2(void *a) { on_access((uintptr_t)a, 2, false, PC); }
void __tsan_unaligned_read4(void *a) { on_access((uintptr_t)a, 4, false, PC); }
void __tsan_unaligned_read8(void *a) { on_access((uintptr_t)a, 8, false, PC); }
void __tsan_unaligned_write2(void *a) { on_access((uintptr_t)a, 2, true, PC); }
void __tsan_unaligned_write4(void *a) { on_access((uintptr_t)a, 4, true, PC); }
void __tsan_unaligned_write8(void *a) { on_access((uintptr_t)a, 8, true, PC); }
void __tsan_read_range(void *a, unsigned long n) { on_range((uintptr_t)a, n, false, PC); }
void __tsan_write_range(void *a, unsigned long n) { on_range((uintptr_t)a, n, true, PC); }
void __tsan_vptr_update(void **, void *) {}
void __tsan_vptr_read(void **) {}
void *__tsan_memcpy(void *d, const void *s, size_t n) { on_range((uintptr_t)s, n, false, PC); on_range((uintptr_t)d, n, true, PC); return memcpy(d, s, n); }
void *__tsan_memmove(void *d, const void *s, size_t n) { on_range((uintptr_t)s, n, false, PC); on_range((uintptr_t)d, n, true, PC); return memmove(d, s, n); }
void *__tsan_memset(void *d, int c, size_t n) { on_range((uintptr_t)d, n, true, PC); return memset(d, c, n); }

// ---- asan variant: basic-block edges as steps ----
void __sanitizer_cov_trace_pc_guard_init(uint32_t *start, uint32_t *stop) {
  static uint32_t n = 0;
  if (start == stop || *start) return;
  for (uint32_t *x = start; x < stop; x++) *x = ++n;
}
void __sanitizer_cov_trace_pc_guard(uint32_t *) {
  if (!g_active) return;
  step_common(self(), PC, true, false);
}

// ---- libc memory routines called from library objects ----
void *sim_memcpy(void *d, const void *s, size_t n) { on_range((uintptr_t)s, n, false, PC); on_range((uintptr_t)d, n, true, PC); return memcpy(d, s, n); }
void *sim_memmove(void *d, const void *s, size_t n) { on_range((uintptr_t)s, n, false, PC); on_range((uintptr_t)d, n, true, PC); return memmove(d, s, n); }
void *sim_memset(void *d, int c, size_t n) { on_range((uintptr_t)d, n, true, PC); return memset(d, c, n); }

// ---- threads ----
int sim_pthread_create(pthread_t *out, const pthread_attr_t *, void *(*fn)(void *), void *arg) {
  SimThread *me = self();
  if (g_unwind) unwind_here(me);
  SimThread *c = new SimThread();
  memset(c, 0, sizeof(*c));
  sem_init(&c->sem, 0, 0);
  c->tid = (int)g_threads.size();
  g_threads.push_back(c);
  int slot = alloc_slot(me);
  if (slot < 0) infra("more than MAXSLOT concurrently live simulated threads");
  g_slot_used[slot] = true;
  c->slot = slot;
  memcpy(c->vc, me->vc, sizeof(c->vc));
  c->vc[slot] = g_slot_last[slot] + 1;
  me->vc[me->slot]++;
  c->fn = fn; c->arg = arg;
  c->prio = (g_active && g_cfg.strategy == SIM_S3_PCT) ? (1000 + g_sched_rng.below(1u << 30)) : 0;
  if (!g_slot_stack[slot]) {
    void *st = mmap(nullptr, STACK_BYTES, PROT_READ | PROT_WRITE, MAP_PRIVATE | MAP_ANONYMOUS | MAP_NORESERVE, -1, 0);
    if (st == MAP_FAILED) infra("mmap of a thread stack failed");
    g_slot_stack[slot] = st;
  }
  pthread_attr_t at;
  pthread_attr_init(&at);
  pthread_attr_setstack(&at, g_slot_stack[slot], STACK_BYTES);
  if (pthread_create(&c->real, &at, trampoline, c) != 0) infra("real pthread_create failed");
  pthread_attr_destroy(&at);
  c->has_real = true;
  make_runnable(c);
  g_ncreated++;
  g_steps += 5000;  // simulated cost of creating a thread on the step clock (keeps step budgets meaningful for thread-heavy loops)
  g_live++;
  if (g_live > g_max_live) g_max_live = g_live;
  hist(0xC4EAULL ^ ((uint64_t)me->tid << 32) ^ ((uint64_t)c->tid << 8));
  if (out) *out = (pthread_t)(uintptr_t)(c->tid + 1);
  int next = decide(me, SIM_K_CREATE, true, PC);
  pass_baton(me, next, true);
  if (g_unwind) unwind_here(me);
  return 0;
}

int sim_pthread_join(pthread_t th, void **ret) {
  SimThread *me = self();
  if (g_unwind) unwind_here(me);
  int tid = (int)(uintptr_t)th - 1;
  if (tid <= 0 || tid >= (int)g_threads.size() || !g_threads[tid]) return 3;  // ESRCH
  SimThread *c = g_threads[tid];
  wait_finished(me, tid);
  if (g_unwind) unwind_here(me);
  for (int s = 0; s < MAXSLOT; s++) if (c->vc[s] > me->vc[s]) me->vc[s] = c->vc[s];
  me->vc[me->slot]++;
  reap(c);
  hist(0x701AULL ^ ((uint64_t)me->tid << 32) ^ ((uint64_t)tid << 8));
  if (ret) *ret = c->ret;
  sem_destroy(&c->sem);
  delete c;
  g_threads[tid] = nullptr;
  return 0;
}

void sim_pthread_exit(void *ret) {
  SimThread *me = self();
  if (me->is_main) infra("pthread_exit on the caller thread");
  me->ret = ret;
  retire_current(me);
}

int sim_pthread_detach(pthread_t) { return 0; }
// mutexes: the pinned tree uses none; should a changed tree add them they are modelled as
// scheduler-visible locks (blocking = yield) with clock transfer.
struct SimMutex { int owner1; uint32_t vc[MAXSLOT]; };  // owner1 = tid+1, 0 = free
static std::unordered_map<void *, SimMutex> g_mutexes;
int sim_pthread_mutex_lock(pthread_mutex_t *m) {
  SimThread *me = self();
  SimMutex &mx = g_mutexes[m];
  while (mx.owner1 != 0 && mx.owner1 != me->tid + 1) {
    if (g_unwind) unwind_here(me);
    int next = random_runnable(me->tid);
    if (next == me->tid) infra("mutex deadlock");
    sim_switch s{me->tid, me->ndec, SIM_K_JOIN, next};
    g_switches.push_back(s); g_nswitch++; me->ndec++;
    pass_baton(me, next, true);
  }
  mx.owner1 = me->tid + 1;
  for (int s = 0; s < MAXSLOT; s++) if (mx.vc[s] > me->vc[s]) me->vc[s] = mx.vc[s];
  return 0;
}
int sim_pthread_mutex_trylock(pthread_mutex_t *m) {
  SimThread *me = self();
  SimMutex &mx = g_mutexes[m];
  if (mx.owner1 != 0 && mx.owner1 != me->tid + 1) return 16;  // EBUSY
  mx.owner1 = me->tid + 1;
  for (int s = 0; s < MAXSLOT; s++) if (mx.vc[s] > me->vc[s]) me->vc[s] = mx.vc[s];
  return 0;
}
int sim_pthread_mutex_unlock(pthread_mutex_t *m) {
  SimThread *me = self();
  SimMutex &mx = g_mutexes[m];
  memcpy(mx.vc, me->vc, sizeof(mx.vc));
  me->vc[me->slot]++;
  mx.owner1 = 0;
  return 0;
}

// ---- atomics ----
// clang's ThreadSanitizer instrumentation turns C11 / GNU atomic operations into calls of __tsan_atomic<N>_<op>.  Under the scheduler one thread
// runs at a time, so the plain operation is atomic; what has to be modelled is ordering: every atomic operation is a release of the thread's clock
// into the object and an acquire of the object's clock (sequentially consistent, the strongest reading: fewer race reports, never more).  The
// driver still lists the symbols as synchronisation the detector treats conservatively.
struct SimAtomic { uint32_t vc[MAXSLOT]; };
static std::unordered_map<const volatile void *, SimAtomic> g_atomic_objs;
static inline void atomic_sync(const volatile void *a) {
  if (!g_active) return;
  SimThread *me = self();
  SimAtomic &o = g_atomic_objs[a];
  for (int s = 0; s < MAXSLOT; s++) { if (o.vc[s] > me->vc[s]) me->vc[s] = o.vc[s]; else o.vc[s] = me->vc[s]; }
  me->vc[me->slot]++;
}
#define SIM_ATOMIC_FAMILY(T, N) \
  extern "C" T __tsan_atomic##N##_load(const volatile T *a, int) { atomic_sync(a); return *a; } \
  extern "C" void __tsan_atomic##N##_store(volatile T *a, T v, int) { atomic_sync(a); *a = v; } \
  extern "C" T __tsan_atomic##N##_exchange(volatile T *a, T v, int) { atomic_sync(a); T o = *a; *a = v; return o; } \
  extern "C" T __tsan_atomic##N##_fetch_add(volatile T *a, T v, int) { atomic_sync(a); T o = *a; *a = (T)(o + v); return o; } \
  extern "C" T __tsan_atomic##N##_fetch_sub(volatile T *a, T v, int) { atomic_sync(a); T o = *a; *a = (T)(o - v); return o; } \
  extern "C" T __tsan_atomic##N##_fetch_and(volatile T *a, T v, int) { atomic_sync(a); T o = *a; *a = (T)(o & v); return o; } \
  extern "C" T __tsan_atomic##N##_fetch_or(volatile T *a, T v, int) { atomic_sync(a); T o = *a; *a = (T)(o | v); return o; } \
  extern "C" T __tsan_atomic##N##_fetch_xor(volatile T *a, T v, int) { atomic_sync(a); T o = *a; *a = (T)(o ^ v); return o; } \
  extern "C" T __tsan_atomic##N##_fetch_nand(volatile T *a, T v, int) { atomic_sync(a); T o = *a; *a = (T)~(o & v); return o; } \
  extern "C" int __tsan_atomic##N##_compare_exchange_strong(volatile T *a, T *c, T v, int, int) { atomic_sync(a); if (*a == *c) { *a = v; return 1; } *c = *a; return 0; } \
  extern "C" int __tsan_atomic##N##_compare_exchange_weak(volatile T *a, T *c, T v, int, int) { atomic_sync(a); if (*a == *c) { *a = v; return 1; } *c = *a; return 0; } \
  extern "C" T __tsan_atomic##N##_compare_exchange_val(volatile T *a, T c, T v, int, int) { atomic_sync(a); T o = *a; if (o == c) *a = v; return o; }
SIM_ATOMIC_FAMILY(uint8_t, 8)
SIM_ATOMIC_FAMILY(uint16_t, 16)
SIM_ATOMIC_FAMILY(uint32_t, 32)
SIM_ATOMIC_FAMILY(uint64_t, 64)
extern "C" void __tsan_atomic_thread_fence(int) {}
extern "C" void __tsan_atomic_signal_fence(int) {}

// ---- machine ----
long sim_sysconf(int name) {
  if (g_active && g_cfg.nproc > 0 && (name == _SC_NPROCESSORS_ONLN || name == _SC_NPROCESSORS_CONF)) return g_cfg.nproc;
  return sysconf(name);
}
int sim_get_nprocs(void) { return (g_active && g_cfg.nproc > 0) ? g_cfg.nproc : (int)sysconf(_SC_NPROCESSORS_ONLN); }
int sim_get_nprocs_conf(void) { return sim_get_nprocs(); }
time_t sim_time(time_t *out) {
  time_t v;
  if (g_active) { v = (time_t)(g_cfg.clock0 + (int64_t)g_clock_reads * g_cfg.clock_step); g_clock_reads++; hist(0x71AEULL); }
  else v = time(nullptr);
  if (out) *out = v;
  return v;
}
clock_t sim_clock(void) { return g_active ? (clock_t)(g_steps) : clock(); }
unsigned sim_sleep(unsigned s) { if (g_active) g_clock_reads += s; return 0; }

// ---- allocator ----
static inline bool alloc_should_fail() {
  g_allocs++;
  if (g_alloc_fail_at && g_allocs == g_alloc_fail_at) { g_alloc_failures++; return true; }
  return false;
}
static inline void garbage(void *p, size_t n) {
  if (!g_active || !g_cfg.garbage_seed || !p) return;
  uint64_t x = g_cfg.garbage_seed ^ (++g_alloc_seq * 0x9e3779b97f4a7c15ULL);
  unsigned char *b = (unsigned char *)p;
  size_t i = 0;
  if (g_cfg.garbage_mode == 2) { memset(p, 0, n); return; }
  if (g_cfg.garbage_mode == 3) {  // finite but absurd: doubles around 1e200, integers huge
    for (; i + 8 <= n; i += 8) { double d = 1e200 * (1.0 + (double)(Prng::splitmix(x) >> 40) * 1e-8); memcpy(b + i, &d, 8); }
    for (; i < n; i++) b[i] = (unsigned char)(0x5A ^ i);
    return;
  }
  for (; i + 8 <= n; i += 8) { uint64_t z = Prng::splitmix(x) | 0x7ff0000000000001ULL; /* NaN payloads for doubles */ memcpy(b + i, &z, 8); }
  for (; i < n; i++) b[i] = (unsigned char)(0xA5 ^ i);
}
void *sim_malloc(size_t n) {
  if (g_active && alloc_should_fail()) return nullptr;
  void *p = malloc(n);
  if (p) { shadow_reset((uintptr_t)p, malloc_usable_size(p)); garbage(p, n); }
  return p;
}
void *sim_calloc(size_t a, size_t b) {
  if (g_active && alloc_should_fail()) return nullptr;
  void *p = calloc(a, b);
  if (p) shadow_reset((uintptr_t)p, malloc_usable_size(p));
  return p;
}
void *sim_realloc(void *old, size_t n) {
  if (g_active && alloc_should_fail()) return nullptr;
  if (!old) return sim_malloc(n);
  if (!g_active) return realloc(old, n);
  size_t oldn = malloc_usable_size(old);
  bool move = g_cfg.realloc_move_pct > 0 && n > 0 && (int)g_alloc_rng.below(100) < g_cfg.realloc_move_pct;
  if (move) {
    void *p = malloc(n);
    if (!p) return nullptr;
    shadow_reset((uintptr_t)p, malloc_usable_size(p));
    garbage(p, n);
    memcpy(p, old, oldn < n ? oldn : n);
    free(old);
    g_realloc_moves++;
    return p;
  }
  void *p = realloc(old, n);
  if (p && p != old && n <= oldn) shadow_reset((uintptr_t)p, malloc_usable_size(p));
  if (p && n > oldn) {
    if (p != old) shadow_reset((uintptr_t)p, malloc_usable_size(p)); else shadow_reset((uintptr_t)p + oldn, malloc_usable_size(p) - oldn);
    garbage((char *)p + oldn, n - oldn);
  }
  return p;
}
void sim_free(void *p) { free(p); }
char *sim_strdup(const char *s) {
  size_t n = strlen(s) + 1;
  char *p = (char *)sim_malloc(n);
  if (p) memcpy(p, s, n);
  return p;
}

// ---- abort ----
void sim_abort(void) {
  SimThread *me = self();
  if (!g_guard) {
    fprintf(stderr, "SIM: abort() from library code outside a guarded call\n");
    fflush(stderr);
    _exit(3);
  }
  fflush(stdout);
  g_unwind = SIM_ABORTED;
  unwind_here(me);
  _exit(3);
}

// ---- harness API ----
void sim_cfg_default(sim_cfg *c) {
  memset(c, 0, sizeof *c);
  c->strategy = SIM_S0_SEQUENTIAL;
  c->preempt_p = 1e-3;
  c->pct_depth = 2;
  c->pct_horizon = 100000;
  c->clock0 = 1790000000;
  c->clock_step = 1;
  c->detect_races = 1;
}

// crash reporting for the uninstrumented (sim) variant: print an ASan-style frame list so that the driver can classify
// the crash by its innermost library frame, then die with the conventional status
static void crash_handler(int sig) {
  void *fr[48];
  int n = backtrace(fr, 48);
  char line[256];
  int len = snprintf(line, sizeof line, "\nERROR: SimCrash: signal-%d\n", sig);
  if (write(2, line, len) < 0) {}
  for (int i = 0; i < n; i++) {
    Dl_info di;
    const char *name = (dladdr(fr[i], &di) && di.dli_sname) ? di.dli_sname : "?";
    bool lib = di.dli_sname && strncmp(name, "sim_", 4) != 0 && strncmp(name, "_Z", 2) != 0 && strcmp(name, "main") != 0 && strcmp(name, "crash_handler") != 0;
    len = snprintf(line, sizeof line, "    #%d 0x%lx in %s %s\n", i, (unsigned long)fr[i], name, lib ? "/src/(library)" : "(harness-or-runtime)");
    if (write(2, line, len) < 0) {}
  }
  signal(sig, SIG_DFL);
  raise(sig);
}
static void install_crash_handler() {
  static bool done = false;
  if (done || __asan_init_weak_present()) return;
  done = true;
  static char altstack[1 << 16];
  stack_t ss; ss.ss_sp = altstack; ss.ss_size = sizeof altstack; ss.ss_flags = 0;
  sigaltstack(&ss, nullptr);
  struct sigaction sa; memset(&sa, 0, sizeof sa); sa.sa_handler = crash_handler; sa.sa_flags = SA_ONSTACK | SA_NODEFER;
  sigaction(SIGSEGV, &sa, nullptr); sigaction(SIGBUS, &sa, nullptr); sigaction(SIGFPE, &sa, nullptr); sigaction(SIGILL, &sa, nullptr);
}

void sim_begin_run(const sim_cfg *c) {
  install_crash_handler();
  SimThread *me = self();
  if (!me->is_main) infra("sim_begin_run off the main thread");
  for (size_t i = 1; i < g_threads.size(); i++) if (g_threads[i]) infra("sim_begin_run with live simulated threads");
  g_cfg = *c;
  g_threads.resize(1);
  g_runnable.clear(); g_runnable.push_back(0);
  me->state = ST_RUNNABLE; me->steps = 0; me->ndec = 0; me->prio = 1u << 31;
  memset(me->vc, 0, sizeof me->vc); me->vc[0] = 1;
  for (int s = 0; s < MAXSLOT; s++) { g_slot_used[s] = (s == 0); g_slot_last[s] = 0; }
  g_steps = 0; g_step_limit = c->step_limit; g_nswitch = 0; g_ncreated = 0; g_live = 1; g_max_live = 1;
  g_hist = 0xcbf29ce484222325ULL; g_sig = 0x84222325cbf29ce4ULL;
  g_switches.clear();
  g_replay.clear();
  if (c->strategy == SIM_REPLAY)
    for (size_t i = 0; i < c->n_replay; i++) g_replay[replay_key(c->replay[i].tid, c->replay[i].tstep, c->replay[i].kind)] = c->replay[i].next;
  g_sched_rng.seed(c->sched_seed, PURPOSE_SCHEDULE);
  g_alloc_rng.seed(c->sched_seed ^ c->garbage_seed, PURPOSE_ALLOC);
  g_preempt_countdown = 0;
  if (c->strategy == SIM_S2_RANDOM) {
    double u = g_sched_rng.unit(); if (u < 1e-12) u = 1e-12;
    g_preempt_countdown = (uint64_t)(log(u) / log(1.0 - c->preempt_p));
  }
  g_pct_points.clear(); g_pct_next = 0;
  if (c->strategy == SIM_S3_PCT) {
    for (int i = 0; i + 1 < c->pct_depth; i++) g_pct_points.push_back(1 + g_sched_rng.below(c->pct_horizon ? c->pct_horizon : 1));
    std::sort(g_pct_points.begin(), g_pct_points.end());
  }
  g_unwind = 0; g_unjoined = 0;
  g_clock_reads = 0;
  g_allocs = 0; g_alloc_fail_at = 0; g_alloc_failures = 0; g_realloc_moves = 0; g_alloc_seq = 0;
  g_gen++; g_cells_live = 0;
  if (g_gen == 0) { g_gen = 1; for (auto &cl : g_cells) cl.gen = 0; }
  if (g_cells.size() > (1u << 20)) { g_cells.clear(); g_cells.shrink_to_fit(); }
  g_ovf.clear();
  g_race_idx.clear(); g_race_list.clear(); g_races = 0;
  g_mutexes.clear();
  g_atomic_objs.clear();
  g_active = true;
}

void sim_end_run(sim_result *r) {
  SimThread *me = self();
  // threads the library never joined: run them to completion now and count them
  int unj = 0;
  for (size_t i = 1; i < g_threads.size(); i++) if (g_threads[i]) unj++;
  if (unj) { g_unjoined += unj; drain_all(me); }
  g_active = false;
  g_total_steps += g_steps;
  if (r) {
    memset(r, 0, sizeof *r);
    r->steps = g_steps; r->switches = g_nswitch; r->threads = g_ncreated; r->max_live = g_max_live;
    r->races = g_races; r->distinct_races = (int)g_race_list.size();
    r->hist_hash = g_hist; r->sched_sig = g_sig; r->clock_reads = g_clock_reads;
    r->allocs = g_allocs; r->alloc_failures = g_alloc_failures; r->realloc_moves = g_realloc_moves;
  }
}

int sim_unjoined(void) { return g_unjoined; }

int sim_guard(void (*fn)(void *), void *arg) {
  SimThread *me = self();
  if (!me->is_main) infra("sim_guard off the main thread");
  g_guard = true;
  int rc = sigsetjmp(g_jmp, 0);
  if (rc == 0) {
    fn(arg);
    // the call returned: any thread still not joined is counted (its work races with the caller)
    int unj = 0;
    for (size_t i = 1; i < g_threads.size(); i++) if (g_threads[i]) unj++;
    if (unj) { g_unjoined += unj; drain_all(me); }
    g_guard = false;
    g_last_unwind = 0;
    return SIM_OK;
  }
  g_guard = false;
  g_last_unwind = rc;
  g_unwind = 0;
  // after an unwind the caller is the only thread
  g_runnable.clear(); g_runnable.push_back(0);
  me->state = ST_RUNNABLE;
  g_live = 1;
  if (g_step_limit && rc == SIM_CEILING) g_step_limit = 0;
  return rc;
}

int sim_spawn(void *(*fn)(void *), void *arg) {
  pthread_t t;
  sim_pthread_create(&t, nullptr, fn, arg);
  return (int)(uintptr_t)t;
}
void sim_join(int h) { sim_pthread_join((pthread_t)(uintptr_t)h, nullptr); }
void sim_hist(uint64_t v) { hist(v); }
size_t sim_switches(const sim_switch **out) { if (out) *out = g_switches.data(); return g_switches.size(); }
size_t sim_races(const sim_race **out) { if (out) *out = g_race_list.data(); return g_race_list.size(); }
void sim_conflicts_clear(void) { g_conflict_pcs.clear(); }
size_t sim_conflicts_count(void) { return g_conflict_pcs.size(); }
void sim_alloc_fail_at(uint64_t k) { g_allocs = 0; g_alloc_fail_at = k; }
uint64_t sim_alloc_count(void) { return g_allocs; }
uint64_t sim_alloc_failures(void) { return g_alloc_failures; }
uint64_t sim_steps_now(void) { return g_steps; }
void sim_set_step_limit(uint64_t limit) { g_step_limit = limit; }
int sim_last_unwind(void) { return g_last_unwind; }
uint64_t sim_total_steps(void) { return g_total_steps + (g_active ? g_steps : 0); }

const char *sim_variant(void) { return __asan_init ? "asan" : "sim"; }

// sanitizer defaults for the asan variant: classify hits by exit code 77, no leak checking
__attribute__((used, visibility("default"))) const char *__asan_default_options(void) {
  return "exitcode=77:quarantine_size_mb=48:detect_leaks=0:abort_on_error=0:handle_abort=0:allocator_may_return_null=1:detect_stack_use_after_return=0:symbolize=1:print_summary=1";
}
__attribute__((used, visibility("default"))) const char *__ubsan_default_options(void) {
  return "halt_on_error=1:exitcode=77:print_stacktrace=1";
}

}  // extern "C"
