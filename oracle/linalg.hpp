// Long-double reference linear algebra for the oracles.  Shares no code with the library.
#pragma once
#include <vector>
#include <cmath>
#include <algorithm>
#include <stdint.h>
#include "../sim/prng.hpp"

typedef long double LD;
typedef std::vector<std::vector<LD>> LMat;
typedef std::vector<LD> LVec;

inline LMat lzeros(size_t r, size_t c) { return LMat(r, LVec(c, 0.0L)); }
inline LMat to_l(const std::vector<std::vector<double>> &a) { LMat m(a.size()); for (size_t i = 0; i < a.size(); i++) m[i].assign(a[i].begin(), a[i].end()); return m; }

// compensated (Neumaier) sum of products
inline LD ldot(const LVec &a, const LVec &b) {
  LD s = 0, c = 0;
  for (size_t i = 0; i < a.size(); i++) { LD x = a[i] * b[i], t = s + x; if (fabsl(s) >= fabsl(x)) c += (s - t) + x; else c += (x - t) + s; s = t; }
  return s + c;
}
inline LD lnorm(const LVec &a) { return sqrtl(ldot(a, a)); }
inline LVec lcol(const LMat &m, size_t j) { LVec v(m.size()); for (size_t i = 0; i < m.size(); i++) v[i] = m[i][j]; return v; }
inline LD lfro(const LMat &m) { LD s = 0; for (auto &r : m) for (LD v : r) s += v * v; return sqrtl(s); }
inline LMat lgram(const LMat &e) {  // E'E
  size_t n = e.size(), p = n ? e[0].size() : 0;
  LMat g = lzeros(p, p);
  for (size_t a = 0; a < p; a++) for (size_t b = a; b < p; b++) { LD s = 0, c = 0; for (size_t i = 0; i < n; i++) { LD x = e[i][a] * e[i][b], t = s + x; if (fabsl(s) >= fabsl(x)) c += (s - t) + x; else c += (x - t) + s; s = t; } g[a][b] = g[b][a] = s + c; }
  return g;
}

// numerical rank by Gaussian elimination with full pivoting; *gap receives the ratio between the
// last accepted pivot and the first rejected one (large gap = unambiguous rank)
inline size_t lrank(LMat a, LD reltol, LD *gap = nullptr, LD *first_rejected = nullptr) {
  size_t n = a.size(), p = n ? a[0].size() : 0, r = 0;
  LD scale = 0; for (auto &row : a) for (LD v : row) scale = std::max(scale, fabsl(v));
  if (gap) *gap = INFINITY;
  if (first_rejected) *first_rejected = 0;
  if (scale == 0) return 0;
  LD lastpiv = scale;
  for (size_t k = 0; k < std::min(n, p); k++) {
    size_t bi = k, bj = k; LD best = 0;
    for (size_t i = k; i < n; i++) for (size_t j = k; j < p; j++) if (fabsl(a[i][j]) > best) { best = fabsl(a[i][j]); bi = i; bj = j; }
    if (best <= reltol * scale) { if (gap) *gap = best > 0 ? lastpiv / best : INFINITY; if (first_rejected) *first_rejected = best / scale; break; }
    std::swap(a[k], a[bi]);
    for (size_t i = 0; i < n; i++) std::swap(a[i][k], a[i][bj]);
    for (size_t i = k + 1; i < n; i++) { LD f = a[i][k] / a[k][k]; if (f != 0) for (size_t j = k; j < p; j++) a[i][j] -= f * a[k][j]; }
    lastpiv = best;
    r++;
  }
  return r;
}

// cyclic Jacobi for a symmetric matrix; eigenvalues sorted descending, eigenvectors in columns of V
inline void ljacobi(LMat a, LVec &eval, LMat &V) {
  size_t n = a.size();
  V = lzeros(n, n); for (size_t i = 0; i < n; i++) V[i][i] = 1;
  for (int sweep = 0; sweep < 100; sweep++) {
    LD off = 0, dia = 0;
    for (size_t i = 0; i < n; i++) { dia += a[i][i] * a[i][i]; for (size_t j = i + 1; j < n; j++) off += a[i][j] * a[i][j]; }
    if (off <= 1e-38L * (dia + 1e-300L)) break;
    for (size_t p = 0; p < n; p++) for (size_t q = p + 1; q < n; q++) {
      if (a[p][q] == 0) continue;
      LD theta = (a[q][q] - a[p][p]) / (2 * a[p][q]);
      LD t = (theta >= 0 ? 1 : -1) / (fabsl(theta) + sqrtl(theta * theta + 1));
      LD c = 1 / sqrtl(t * t + 1), s = t * c;
      for (size_t k = 0; k < n; k++) { LD akp = a[k][p], akq = a[k][q]; a[k][p] = c * akp - s * akq; a[k][q] = s * akp + c * akq; }
      for (size_t k = 0; k < n; k++) { LD apk = a[p][k], aqk = a[q][k]; a[p][k] = c * apk - s * aqk; a[q][k] = s * apk + c * aqk; }
      for (size_t k = 0; k < n; k++) { LD vkp = V[k][p], vkq = V[k][q]; V[k][p] = c * vkp - s * vkq; V[k][q] = s * vkp + c * vkq; }
    }
  }
  std::vector<size_t> idx(n); for (size_t i = 0; i < n; i++) idx[i] = i;
  std::sort(idx.begin(), idx.end(), [&](size_t x, size_t y) { return a[x][x] > a[y][y]; });
  eval.resize(n); LMat V2 = lzeros(n, n);
  for (size_t k = 0; k < n; k++) { eval[k] = a[idx[k]][idx[k]]; for (size_t i = 0; i < n; i++) V2[i][k] = V[i][idx[k]]; }
  V = V2;
}

// random orthogonal matrix (product of Householder reflections), n x n
inline LMat lrandom_orthogonal(size_t n, Prng &r) {
  LMat q = lzeros(n, n); for (size_t i = 0; i < n; i++) q[i][i] = 1;
  for (size_t h = 0; h < n; h++) {
    LVec v(n); for (auto &x : v) x = r.normal();
    LD nv = lnorm(v); if (nv == 0) continue; for (auto &x : v) x /= nv;
    for (size_t j = 0; j < n; j++) { LD d = 0; for (size_t i = 0; i < n; i++) d += v[i] * q[i][j]; for (size_t i = 0; i < n; i++) q[i][j] -= 2 * v[i] * d; }
  }
  return q;
}
