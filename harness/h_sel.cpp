// C17 — object selection and k-means return valid, optimal-by-construction results,
// independent of thread count and schedule.  See DESIGN.md section 3.
#include "lib.hpp"
#include "linalg.hpp"
#include <algorithm>

enum Alg { A_MDC = 0, A_MAXDIS, A_MAXDIS_FAST, A_KMPP, A_KMEANS, A_COUNT };
static const char *alg_name[] = {"MDC", "MaxDis", "MaxDis_Fast", "KMeansppCenters", "KMeans"};

struct SCase { int alg, n, p, k, metric, init, nthreads; unsigned seed; Mat X; };
struct SOut { std::vector<size_t> sel, sel2, labels; Mat cent; };
struct SCall { const SCase *c; SOut *o; int nthreads; };

static void call_alg(void *a_) {
  SCall &a = *(SCall *)a_; const SCase &c = *a.c; SOut &o = *a.o;
  matrix *m = to_matrix(c.X);
  size_t nth = (size_t)a.nthreads;
  switch (c.alg) {
    case A_MDC: { uivector *s; initUIVector(&s); MDC(m, (size_t)c.k, c.metric, s, nth); o.sel = from_uivector(s); DelUIVector(&s); break; }
    case A_MAXDIS: case A_MAXDIS_FAST: {
      uivector *s; initUIVector(&s); MaxDis(m, (size_t)c.k, c.metric, s, nth); o.sel = from_uivector(s); DelUIVector(&s);
      initUIVector(&s); MaxDis_Fast(m, (size_t)c.k, c.metric, s, nth); o.sel2 = from_uivector(s); DelUIVector(&s);
      break;
    }
    case A_KMPP: { uivector *s; initUIVector(&s); srand_(c.seed); KMeansppCenters(m, (size_t)c.k, s, (int)nth); o.sel = from_uivector(s); DelUIVector(&s); break; }
    case A_KMEANS: { uivector *l; initUIVector(&l); matrix *cen; initMatrix(&cen); srand_(c.seed); KMeans(m, (size_t)c.k, c.init, l, cen, nth); o.labels = from_uivector(l); o.cent = from_matrix(cen); DelMatrix(&cen); DelUIVector(&l); break; }
  }
  DelMatrix(&m);
}

static LD metric_ld(const std::vector<double> &a, const std::vector<double> &b, int metric) {
  LD s = 0, da = 0, db = 0;
  for (size_t j = 0; j < a.size(); j++) { LD x = a[j], y = b[j]; if (metric == 0) s += (x - y) * (x - y); else if (metric == 1) s += fabsl(x - y); else { s += x * y; da += x * x; db += y * y; } }
  if (metric == 0) return sqrtl(s);
  if (metric == 1) return s;
  return s / (sqrtl(da) * sqrtl(db));  // the library's "cosine distance" (as defined in metricspace.c)
}

struct HSel : Harness {
  const char *engine() const override { return "h_sel"; }

  Plan generate(uint64_t seed) override {
    Plan p;
    Prng wr(seed, PURPOSE_WORKLOAD), mr(seed, PURPOSE_MACHINE), sr(seed, PURPOSE_SCHEDULE);
    gen_machine(p, mr, sr, true, 8);
    if (p.geti("sched.strategy") == 4) p.seti("sched.strategy", 3);
    int alg = (int)wr.below(A_COUNT);
    int n = (int)(wr.chance(0.7) ? wr.range(3, 25) : wr.range(26, 80)), pp = (int)wr.range(1, 6);
    int k = alg == A_KMEANS ? (int)wr.range(1, std::min(6, n)) : (int)wr.range(1, alg == A_MDC && n > 30 ? 30 : n);
    if (alg == A_KMPP) k = (int)wr.range(1, std::min(6, n));
    if (wr.chance(0.04)) { n = (int)wr.range(100, 400); k = (int)wr.range(1, alg == A_KMEANS || alg == A_KMPP ? 6 : 12); p.seti("large", 1); }  // a size threshold in the library must not hide a path
    p.seti("alg", alg); p.seti("objects", n); p.seti("cols", pp); p.seti("k", k); p.seti("metric", (int)wr.below(3)); p.seti("init", (int)wr.below(4));
    p.seti("nthreads", (int)wr.range(1, 8)); p.setu("rng_seed", 1 + wr.below(1000000)); p.setu("data.seed", wr.next() >> 4);
    // data layout (swarm): 0 one Gaussian cloud, 1 separated blobs, 2 some objects duplicated, 3 cloud far from the origin; unit of the data 1e-3..1e3
    p.seti("layout", wr.chance(0.5) ? 0 : (int)wr.range(1, 3));
    p.setd("unit_exp", wr.chance(0.6) ? 0.0 : wr.uniform(-3.0, 3.0));
    return p;
  }

  Outcome execute(const Plan &p) override {
    Outcome o;
    SCase c; c.alg = (int)p.geti("alg"); c.n = (int)p.geti("objects"); c.p = (int)p.geti("cols"); c.k = (int)p.geti("k"); c.metric = (int)p.geti("metric"); c.init = (int)p.geti("init");
    c.nthreads = (int)p.geti("nthreads"); c.seed = (unsigned)p.getu("rng_seed");
    Prng dr(p.getu("data.seed"), PURPOSE_WORKLOAD);
    c.X.assign(c.n, std::vector<double>(c.p));
    for (auto &r : c.X) for (double &v : r) v = dr.normal() * 3 + dr.uniform(-2, 2);
    {
      int layout = (int)p.geti("layout", 0); double unit = pow(10.0, p.getd("unit_exp", 0.0));
      Prng lr(p.getu("data.seed") ^ 0x5bd1e995u, PURPOSE_WORKLOAD);
      if (layout == 1) { int nb = 1 + (int)lr.below(5); std::vector<std::vector<double>> ctr(nb, std::vector<double>(c.p)); for (auto &q : ctr) for (double &v : q) v = lr.uniform(-40, 40); for (auto &r : c.X) { auto &q = ctr[lr.below(nb)]; for (int j = 0; j < c.p; j++) r[j] = r[j] * 0.3 + q[j]; } }
      else if (layout == 2) { int nd = 1 + (int)lr.below(std::max(1, c.n / 2)); for (int d = 0; d < nd; d++) { size_t a = lr.below(c.n), b = lr.below(c.n); c.X[a] = c.X[b]; } }
      else if (layout == 3) {  // cloud far from the origin: location up to 1e8 x spread (time stamps, absolute temperatures); distances are translation invariant.
        // not for the cosine "distance", which is not: far from the origin all cosines tie at 1
        double far = c.metric == 2 ? 200.0 : pow(10.0, lr.chance(0.3) ? lr.uniform(1.5, 4.0) : lr.uniform(4.0, 9.0));
        for (int j = 0; j < c.p; j++) { double off = (lr.chance(0.5) ? 1 : -1) * far * lr.uniform(0.3, 1.0); for (auto &r : c.X) r[j] += off; }
        if (far > 1e5) o.counters["probe.far_from_origin"]++;
      }
      if (unit != 1.0) for (auto &r : c.X) for (double &v : r) v *= unit;
      o.counters["layout." + std::to_string(layout)]++;
      if (p.geti("large", 0)) o.counters["probe.large_operand"]++;
      if (unit < 0.1) o.counters["probe.small_unit"]++; else if (unit > 10) o.counters["probe.large_unit"]++;
    }
    char cfg[200]; snprintf(cfg, sizeof cfg, "%s n=%d p=%d k=%d metric=%d init=%d threads=%d", alg_name[c.alg], c.n, c.p, c.k, c.metric, c.init, c.nthreads);
    o.cfg = cfg; o.counters[std::string("alg.") + alg_name[c.alg]]++;
    sim_cfg sc; std::vector<sim_switch> rs; cfg_from_plan(p, sc, rs);
    int plan_strategy = sc.strategy;
    // A: one worker, canonical schedule
    SOut A, B;
    sim_cfg sa = sc; sa.strategy = SIM_S0_SEQUENTIAL; sa.replay = nullptr; sa.n_replay = 0; sa.step_limit = 2000000000ULL; sa.garbage_mode = 2;  // reference run: fresh memory is zero; explored run: huge finite garbage
    sim_begin_run(&sa);
    SCall ca{&c, &A, 1};
    int rca = sim_guard(call_alg, &ca);
    sim_result sra; sim_end_run(&sra);
    // B: requested thread count under the plan's schedule and another clock origin
    sim_cfg sb = sc; sb.clock0 += 99991; sb.step_limit = 2000000000ULL; sb.garbage_mode = 3;
    sim_begin_run(&sb);
    SCall cb{&c, &B, c.nthreads};
    int rcb = sim_guard(call_alg, &cb);
    int unj = sim_unjoined();
    sim_result srb; sim_end_run(&srb);
    std::string rcls = (srb.races && races_are_verdicts()) ? race_class() : "", rtxt = srb.races ? races_text() : "";
    if (srb.races && !races_are_verdicts()) o.counters["advisory.races_not_decided"]++;
    const sim_switch *sw; size_t nsw = sim_switches(&sw);
    fill_outcome_from_sim(o, sra, plan_strategy); fill_outcome_from_sim(o, srb, plan_strategy);
    o.sched_sig = srb.sched_sig; o.nontrivial = srb.max_live >= 2;
    Hasher h; h.u64(sra.hist_hash); h.u64(srb.hist_hash); hash_uvec(h, B.sel); hash_uvec(h, B.sel2); hash_uvec(h, B.labels); hash_mat(h, B.cent);
    o.hash = h.h;
    if (rca == SIM_CEILING || rcb == SIM_CEILING) { o.counters["skipped.step_ceiling"]++; return o; }
    if (rca || rcb) { o.fail("abort", std::string(alg_name[c.alg]) + ": aborted on a valid call"); return o; }
    if (unj) o.fail("unjoined-thread", std::string(alg_name[c.alg]) + ": worker not joined at return");
    if (!rcls.empty()) o.fail(rcls, std::string(alg_name[c.alg]) + ": workers share unsynchronised state: " + rtxt);
    // thread-count / schedule independence
    if (A.sel != B.sel || A.sel2 != B.sel2 || A.labels != B.labels) { char m[200]; snprintf(m, sizeof m, "%s: result with %d threads differs from 1 thread", alg_name[c.alg], c.nthreads); o.fail("thread-count-divergence", m); }
    if (A.cent.size() != B.cent.size()) o.fail("thread-count-divergence", "KMeans: centroid count depends on the thread count");
    else for (size_t i = 0; i < A.cent.size() && !o.violation; i++) for (size_t j = 0; j < A.cent[i].size(); j++) if (!same_bits(A.cent[i][j], B.cent[i][j])) { o.fail("thread-count-divergence", "KMeans: centroids depend on the thread count / schedule"); break; }

    auto check_selection = [&](const std::vector<size_t> &s, const char *name) {
      if (s.size() != (size_t)c.k) { char m[200]; snprintf(m, sizeof m, "%s returned %zu objects, %d requested", name, s.size(), c.k); o.fail("selection-count", m); return; }
      std::set<size_t> u(s.begin(), s.end());
      if (u.size() != s.size()) o.fail("selection-distinct", std::string(name) + ": duplicate index in the selection");
      for (size_t x : s) if (x >= (size_t)c.n) o.fail("selection-range", std::string(name) + ": index out of range");
    };
    if (c.alg != A_KMEANS) check_selection(B.sel, alg_name[c.alg]);
    if (c.alg == A_MAXDIS || c.alg == A_MAXDIS_FAST) {
      check_selection(B.sel2, "MaxDis_Fast");
      if (!o.violation && B.sel != B.sel2) { size_t d = 0; while (d < B.sel.size() && B.sel[d] == B.sel2[d]) d++; char m[200]; snprintf(m, sizeof m, "MaxDis and MaxDis_Fast diverge at position %zu (%zu vs %zu), metric %d", d, B.sel[d], B.sel2[d], c.metric); o.fail("maxdis-implementations-differ", m); }
      if (!o.violation) {
        // first element: farthest from the centroid (Euclidean, as both implementations define it)
        std::vector<double> cen(c.p, 0.0); for (auto &r : c.X) for (int j = 0; j < c.p; j++) cen[j] += r[j]; for (double &v : cen) v /= c.n;
        LD best = -1, second = -1; size_t bi = 0;
        for (int i = 0; i < c.n; i++) { LD d = metric_ld(c.X[i], cen, 0); if (d > best) { second = best; best = d; bi = i; } else if (d > second) second = d; }
        if (best - second > 1e-9L * best) { if (B.sel[0] != bi) { char m[200]; snprintf(m, sizeof m, "MaxDis: first object is %zu, the farthest from the centroid is %zu", B.sel[0], bi); o.fail("not-farthest-from-centroid", m); } }
        else o.counters["skipped.tie"]++;
        // every further element maximises the minimum "distance" (library metric) to those already chosen
        for (size_t step = 1; step < B.sel.size() && !o.violation; step++) {
          LD bestv = -INFINITY, secondv = -INFINITY; size_t besti = 0;
          for (int i = 0; i < c.n; i++) {
            bool chosen = false; for (size_t q = 0; q < step; q++) if (B.sel[q] == (size_t)i) chosen = true;
            if (chosen) continue;
            LD mn = INFINITY; for (size_t q = 0; q < step; q++) mn = std::min(mn, metric_ld(c.X[i], c.X[B.sel[q]], c.metric));
            if (mn > bestv) { secondv = bestv; bestv = mn; besti = i; } else if (mn > secondv) secondv = mn;
          }
          if (bestv - secondv <= 1e-9L * fabsl(bestv)) { o.counters["skipped.tie"]++; continue; }
          if (B.sel[step] != besti) { char m[240]; snprintf(m, sizeof m, "MaxDis (metric %d): element %zu is object %zu, but object %zu has the larger minimum distance to the chosen set", c.metric, step, B.sel[step], besti); o.fail("not-max-min", m); }
        }
        o.counters["probe.maxmin_verified"]++;
      }
    }
    if (c.alg == A_KMEANS && !o.violation) {
      if (B.labels.size() != (size_t)c.n) o.fail("shape", "KMeans: label vector length differs from the number of objects");
      else if (B.cent.size() != (size_t)c.k || (c.k && B.cent[0].size() != (size_t)c.p)) o.fail("shape", "KMeans: centroid matrix has the wrong shape");
      else {
        std::vector<size_t> cnt(c.k, 0); std::vector<std::vector<LD>> mean(c.k, std::vector<LD>(c.p, 0));
        for (int i = 0; i < c.n && !o.violation; i++) { size_t l = B.labels[i]; if (l >= (size_t)c.k) { o.fail("label-range", "KMeans: label out of range"); break; } cnt[l]++; for (int j = 0; j < c.p; j++) mean[l][j] += c.X[i][j]; }
        bool cap_possible = srb.threads >= (uint64_t)95 * c.nthreads;  // ~100 labelling sweeps: the iteration cap may have cut the run
        for (int q = 0; q < c.k && !o.violation; q++) {
          if (cnt[q] == 0) { o.counters["probe.empty_cluster"]++; continue; }  // documented: re-seeded from a random object
          for (int j = 0; j < c.p; j++) { LD mq = mean[q][j] / cnt[q]; if (fabsl(mq - B.cent[q][j]) > 1e-9L * (1 + fabsl(mq))) { char m[240]; snprintf(m, sizeof m, "KMeans (init %d): centroid %d coordinate %d is %.12g, the mean of its %zu members is %.12Lg", c.init, q, j, B.cent[q][j], cnt[q], mq); o.fail("centroid-not-mean", m); break; } }
        }
        // (a run cut by the sweep cap of 100 used to be exempted here; in 23000 thorough k-means runs on the unchanged tree the cap was never
        //  reached, while a labelling defect that keeps the sweeps from settling hid behind the exemption - the property makes no exception)
        if (cap_possible) o.counters["probe.iteration_cap_possible"]++;
        if (!o.violation) {
          LD slack = 2 * sqrtl((LD)c.p) * 1e-3L;
          for (int i = 0; i < c.n && !o.violation; i++) {
            LD own = metric_ld(c.X[i], B.cent[B.labels[i]], 0), mn = INFINITY;
            for (int q = 0; q < c.k; q++) mn = std::min(mn, metric_ld(c.X[i], B.cent[q], 0));
            if (own > mn + slack) { char m[240]; snprintf(m, sizeof m, "KMeans (init %d): object %d is at %.6Lg from its centroid but %.6Lg from the nearest one", c.init, i, own, mn); o.fail("not-nearest-centroid", m); }
          }
          o.counters["probe.nearest_verified"]++;
        }
      }
    }
    if (o.violation && !p.has("sched.switches") && nsw && nsw < 6000) o.switch_list = switches_text(sw, nsw);
    return o;
  }

  std::vector<Plan> shrink(const Plan &p) override {
    std::vector<Plan> out;
    auto with = [&](const char *k, long long v) { Plan q = p; q.seti(k, v); out.push_back(q); };
    if (p.geti("sched.strategy") != 0 && !p.has("sched.switches")) with("sched.strategy", 0);
    long long n = p.geti("objects"), pp = p.geti("cols"), k = p.geti("k"), th = p.geti("nthreads");
    for (long long v : {n / 2, n - 1}) if (v >= 3 && v >= k && v < n) with("objects", v);
    for (long long v : {(long long)1, pp - 1}) if (v >= 1 && v < pp) with("cols", v);
    for (long long v : {(long long)2, k - 1}) if (v >= 1 && v < k) with("k", v);
    for (long long v : {(long long)2, th - 1}) if (v >= 1 && v < th) with("nthreads", v);
    shrink_switches(p, out);
    return out;
  }
};

int main(int argc, char **argv) { HSel h; return harness_main(h, argc, argv); }
