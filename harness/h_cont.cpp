// C14 — containers stay memory-safe and shape-consistent under any operation history.
// Histories of <= 40 operations over pools of 4 live containers per kind, shadow model comparison
// after every operation, garbage-filling / moving / failing allocator, ASan+UBSan build.
#include "lib.hpp"
#include <algorithm>

// matrix.h declares MatrixAppendUIRow twice and MatrixAppendUICol never (header typo); the function is public in matrix.c
extern "C" void MatrixAppendUICol(matrix *m, uivector *col) __attribute__((weak));

#define POOL 4
enum Op {
  M_NEW = 0, M_RESIZE, M_COPY, M_APPEND_ROW, M_APPEND_COL, M_APPEND_UIROW, M_APPEND_UICOL, M_DEL_ROW, M_DEL_COL, M_SET, M_GET, M_GETROW, M_GETCOL, M_SETALL, M_SORT, M_REINIT,
  D_NEW, D_RESIZE, D_APPEND, D_REMOVE, D_COPY, D_EXTEND, D_SET, D_GET, D_SETALL, D_SORT, D_REINIT,
  U_NEW, U_RESIZE, U_APPEND, U_REMOVE, U_EXTEND, U_SET, U_GET, U_SETALL, U_SORT, U_REINIT,
  I_NEW, I_APPEND, I_REMOVE, I_EXTEND, I_SET, I_GET, I_SETALL, I_REINIT,
  S_APPEND, S_APPEND_INT, S_APPEND_DBL, S_SET, S_GET, S_RESIZE, S_EXTEND, S_REINIT,
  T_NEW, T_ADD, T_APPEND_M, T_APPEND_COL, T_SET, T_GET, T_SETALL, T_COPY, T_REINIT,
  L_APPEND, L_REINIT,
  M_RSORT, U_INDEXOF, U_HAS, I_HAS, S_SPLIT, OP_COUNT
};
static const char *op_name[] = {
  "NewMatrix", "ResizeMatrix", "MatrixCopy", "MatrixAppendRow", "MatrixAppendCol", "MatrixAppendUIRow", "MatrixAppendUICol", "MatrixDeleteRowAt", "MatrixDeleteColAt", "setMatrixValue", "getMatrixValue", "getMatrixRow", "getMatrixColumn", "MatrixSet", "MatrixSort", "DelMatrix+initMatrix",
  "NewDVector", "DVectorResize", "DVectorAppend", "DVectorRemoveAt", "DVectorCopy", "DVectorExtend", "setDVectorValue", "getDVectorValue", "DVectorSet", "DVectorSort", "DelDVector+initDVector",
  "NewUIVector", "UIVectorResize", "UIVectorAppend", "UIVectorRemoveAt", "UIVectorExtend", "setUIVectorValue", "getUIVectorValue", "UIVectorSet", "SortUIVector", "DelUIVector+initUIVector",
  "NewIVector", "IVectorAppend", "IVectorRemoveAt", "IVectorExtend", "setIVectorValue", "getIVectorValue", "IVectorSet", "DelIVector+initIVector",
  "StrVectorAppend", "StrVectorAppendInt", "StrVectorAppendDouble", "setStr", "getStr", "StrVectorResize", "StrVectorExtend", "DelStrVector+initStrVector",
  "NewTensor+NewTensorMatrix", "AddTensorMatrix", "TensorAppendMatrix", "TensorAppendColumn", "setTensorValue", "getTensorValue", "TensorSet", "TensorCopy", "DelTensor+initTensor",
  "DVectorListAppend", "DelDVectorList+initDVectorList",
  "MatrixReverseSort", "UIVectorIndexOf", "UIVectorHasValue", "IVectorHasValue", "SplitString"};

struct OpRec { int code, a, b, c; double v; int fail_at; };  // fail_at: k-th allocation inside this op returns NULL (0 = none)

struct SMat { size_t row = 0, col = 0; std::vector<std::vector<double>> d; };
static void smat_shape(SMat &m, size_t r, size_t c) { m.row = r; m.col = c; m.d.assign(r, std::vector<double>(c, 0.0)); }

struct Pools {
  matrix *M[POOL]; dvector *D[POOL]; uivector *U[POOL]; ivector *I[POOL]; strvector *S[POOL]; tensor *T[POOL]; dvectorlist *L[POOL];
  SMat sM[POOL]; std::vector<double> sD[POOL]; std::vector<size_t> sU[POOL]; std::vector<int> sI[POOL]; std::vector<std::string> sS[POOL]; std::vector<SMat> sT[POOL]; std::vector<std::vector<double>> sL[POOL];
};

static void pools_init(Pools &p) {
  for (int i = 0; i < POOL; i++) {
    initMatrix(&p.M[i]); initDVector(&p.D[i]); initUIVector(&p.U[i]); initIVector(&p.I[i]); initStrVector(&p.S[i]); initTensor(&p.T[i]); initDVectorList(&p.L[i]);
    p.sM[i] = SMat(); p.sD[i].clear(); p.sU[i].clear(); p.sI[i].clear(); p.sS[i].clear(); p.sT[i].clear(); p.sL[i].clear();
  }
}
static void pools_free(Pools &p) {
  for (int i = 0; i < POOL; i++) { DelMatrix(&p.M[i]); DelDVector(&p.D[i]); DelUIVector(&p.U[i]); DelIVector(&p.I[i]); DelStrVector(&p.S[i]); DelTensor(&p.T[i]); DelDVectorList(&p.L[i]); }
}

static double stored(double v) { return (v != v || std::isinf(v)) ? (double)MISSING : v; }

struct Exec {
  Pools *p; const OpRec *op; Outcome *o;
  bool expect_abort = false;   // the documented outcome of this call is a clean abort
  std::string mismatch;        // set when a returned value contradicts the shadow
};

// apply one operation to the library objects AND to the shadow; the shadow is updated first so that
// an unexpected abort leaves the message about what was attempted
static void apply_op(void *a_) {
  Exec &e = *(Exec *)a_; Pools &p = *e.p; const OpRec &op = *e.op;
  int a = op.a % POOL, b = op.b % POOL;
  size_t n1 = (size_t)op.b, n2 = (size_t)op.c;
  switch (op.code) {
    // ---- matrix
    case M_NEW: DelMatrix(&p.M[a]); NewMatrix(&p.M[a], n1, n2); smat_shape(p.sM[a], n1, n2); break;
    case M_RESIZE: ResizeMatrix(p.M[a], n1, n2); smat_shape(p.sM[a], n1, n2); break;
    case M_COPY: if (a == b) break; MatrixCopy(p.M[a], &p.M[b]); p.sM[b] = p.sM[a]; break;
    case M_APPEND_ROW: case M_APPEND_UIROW: {
      SMat &s = p.sM[a]; std::vector<double> row;
      if (op.code == M_APPEND_ROW) row = p.sD[b]; else row.assign(p.sU[b].begin(), p.sU[b].end());
      size_t nc = s.col != 0 ? std::max(row.size(), s.col) : row.size();
      if (op.code == M_APPEND_ROW) MatrixAppendRow(p.M[a], p.D[b]); else MatrixAppendUIRow(p.M[a], p.U[b]);
      for (auto &r : s.d) r.resize(nc, 0.0);
      row.resize(nc, 0.0); s.d.push_back(row); s.row++; s.col = nc;
      break;
    }
    case M_APPEND_COL: case M_APPEND_UICOL: {
      if (op.code == M_APPEND_UICOL && !MatrixAppendUICol) break;
      SMat &s = p.sM[a]; std::vector<double> col;
      if (op.code == M_APPEND_COL) col = p.sD[b]; else col.assign(p.sU[b].begin(), p.sU[b].end());
      size_t nr = s.row != 0 ? std::max(col.size(), s.row) : col.size();
      if (op.code == M_APPEND_COL) MatrixAppendCol(p.M[a], p.D[b]); else MatrixAppendUICol(p.M[a], p.U[b]);
      while (s.d.size() < nr) s.d.push_back(std::vector<double>(s.col, 0.0));
      for (size_t i = 0; i < nr; i++) s.d[i].push_back(i < col.size() ? col[i] : 0.0);
      s.row = nr; s.col = s.col + 1;
      break;
    }
    case M_DEL_ROW: { SMat &s = p.sM[a]; if (s.row == 0) break; size_t r = n1 % s.row; MatrixDeleteRowAt(p.M[a], r); s.d.erase(s.d.begin() + r); s.row--; break; }
    case M_DEL_COL: { SMat &s = p.sM[a]; if (s.col == 0) break; size_t c = n1 % s.col; MatrixDeleteColAt(p.M[a], c); for (auto &r : s.d) r.erase(r.begin() + c); s.col--; break; }
    case M_SET: { SMat &s = p.sM[a]; setMatrixValue(p.M[a], n1, n2, op.v); if (n1 < s.row && n2 < s.col) s.d[n1][n2] = stored(op.v); break; }
    case M_GET: { SMat &s = p.sM[a]; double g = getMatrixValue(p.M[a], n1, n2); if (n1 < s.row && n2 < s.col) { if (!same_bits(g, s.d[n1][n2])) e.mismatch = "getMatrixValue returned another value than was stored"; } else if (g == g) e.mismatch = "out-of-range getMatrixValue did not return NaN"; break; }
    case M_GETROW: { SMat &s = p.sM[a]; dvector *r = getMatrixRow(p.M[a], n1); if (n1 < s.row) { if (!r || r->size != s.col) e.mismatch = "getMatrixRow size"; else for (size_t j = 0; j < s.col; j++) if (!same_bits(r->data[j], s.d[n1][j])) e.mismatch = "getMatrixRow content"; } else if (r) e.mismatch = "out-of-range getMatrixRow did not return NULL"; if (r) DelDVector(&r); break; }
    case M_GETCOL: { SMat &s = p.sM[a]; dvector *r = getMatrixColumn(p.M[a], n1); if (n1 < s.col) { if (!r || r->size != s.row) e.mismatch = "getMatrixColumn size"; else for (size_t i = 0; i < s.row; i++) if (!same_bits(r->data[i], s.d[i][n1])) e.mismatch = "getMatrixColumn content"; } else if (r) e.mismatch = "out-of-range getMatrixColumn did not return NULL"; if (r) DelDVector(&r); break; }
    case M_SETALL: { MatrixSet(p.M[a], op.v); for (auto &r : p.sM[a].d) for (double &x : r) x = op.v; break; }
    case M_SORT: {
      SMat &s = p.sM[a]; if (s.col == 0 || s.row == 0) break; size_t c = n1 % s.col;
      for (auto &r : s.d) if (r[c] != r[c]) return;  // NaN keys: no defined order
      MatrixSort(p.M[a], c);
      // accept the library's order if it is a sorted permutation of the rows
      std::vector<std::vector<double>> got(s.row, std::vector<double>(s.col));
      if (p.M[a]->row != s.row || p.M[a]->col != s.col) { e.mismatch = "MatrixSort changed the shape"; break; }
      for (size_t i = 0; i < s.row; i++) for (size_t j = 0; j < s.col; j++) got[i][j] = p.M[a]->data[i][j];
      for (size_t i = 1; i < s.row; i++) if (got[i - 1][c] > got[i][c]) e.mismatch = "MatrixSort: rows not ordered by the key column";
      auto x = s.d, y = got; auto lt = [](const std::vector<double> &u, const std::vector<double> &v) { return memcmp(u.data(), v.data(), u.size() * 8) < 0; };
      std::sort(x.begin(), x.end(), lt); std::sort(y.begin(), y.end(), lt);
      for (size_t i = 0; i < x.size(); i++) for (size_t j = 0; j < s.col; j++) if (!same_bits(x[i][j], y[i][j])) e.mismatch = "MatrixSort: result is not a permutation of the rows";
      s.d = got;
      break;
    }
    case M_RSORT: {
      SMat &s = p.sM[a]; if (s.col == 0 || s.row == 0) break; size_t c = n1 % s.col;
      for (auto &r : s.d) if (r[c] != r[c]) return;
      MatrixReverseSort(p.M[a], c);
      if (p.M[a]->row != s.row || p.M[a]->col != s.col) { e.mismatch = "MatrixReverseSort changed the shape"; break; }
      std::vector<std::vector<double>> got(s.row, std::vector<double>(s.col));
      for (size_t i = 0; i < s.row; i++) for (size_t j = 0; j < s.col; j++) got[i][j] = p.M[a]->data[i][j];
      for (size_t i = 1; i < s.row; i++) if (got[i - 1][c] < got[i][c]) e.mismatch = "MatrixReverseSort: rows not ordered (descending) by the key column";
      auto x = s.d, y = got; auto lt = [](const std::vector<double> &u, const std::vector<double> &v) { return memcmp(u.data(), v.data(), u.size() * 8) < 0; };
      std::sort(x.begin(), x.end(), lt); std::sort(y.begin(), y.end(), lt);
      for (size_t i = 0; i < x.size(); i++) for (size_t j = 0; j < s.col; j++) if (!same_bits(x[i][j], y[i][j])) e.mismatch = "MatrixReverseSort: result is not a permutation of the rows";
      s.d = got;
      break;
    }
    case M_REINIT: DelMatrix(&p.M[a]); initMatrix(&p.M[a]); p.sM[a] = SMat(); break;
    // ---- dvector
    case D_NEW: DelDVector(&p.D[a]); NewDVector(&p.D[a], n1); p.sD[a].assign(n1, 0.0); break;
    case D_RESIZE: DVectorResize(p.D[a], n1); p.sD[a].assign(n1, 0.0); break;
    case D_APPEND: DVectorAppend(p.D[a], op.v); p.sD[a].push_back(op.v); break;
    case D_REMOVE: DVectorRemoveAt(p.D[a], n1); if (n1 < p.sD[a].size()) p.sD[a].erase(p.sD[a].begin() + n1); break;
    case D_COPY: if (a == b) break; DVectorCopy(p.D[a], p.D[b]); p.sD[b] = p.sD[a]; break;
    case D_EXTEND: { int c = op.c % POOL; dvector *x = DVectorExtend(p.D[a], p.D[b]); std::vector<double> s = p.sD[a]; s.insert(s.end(), p.sD[b].begin(), p.sD[b].end()); DelDVector(&p.D[c]); p.D[c] = x; p.sD[c] = s; break; }
    case D_SET: { if (n1 >= p.sD[a].size()) e.expect_abort = true; setDVectorValue(p.D[a], n1, op.v); if (n1 < p.sD[a].size()) p.sD[a][n1] = op.v; break; }
    case D_GET: { if (n1 >= p.sD[a].size()) e.expect_abort = true; double g = getDVectorValue(p.D[a], n1); if (n1 < p.sD[a].size() && !same_bits(g, p.sD[a][n1])) e.mismatch = "getDVectorValue returned another value than was stored"; break; }
    case D_SETALL: DVectorSet(p.D[a], op.v); for (double &x : p.sD[a]) x = op.v; break;
    case D_SORT: { for (double x : p.sD[a]) if (x != x) return; DVectorSort(p.D[a]); std::sort(p.sD[a].begin(), p.sD[a].end()); break; }
    case D_REINIT: DelDVector(&p.D[a]); initDVector(&p.D[a]); p.sD[a].clear(); break;
    // ---- uivector
    case U_NEW: DelUIVector(&p.U[a]); NewUIVector(&p.U[a], n1); p.sU[a].assign(n1, 0); break;
    case U_RESIZE: UIVectorResize(p.U[a], n1); p.sU[a].assign(n1, 0); break;
    case U_APPEND: UIVectorAppend(p.U[a], n1); p.sU[a].push_back(n1); break;
    case U_REMOVE: UIVectorRemoveAt(p.U[a], n1); if (n1 < p.sU[a].size()) p.sU[a].erase(p.sU[a].begin() + n1); break;
    case U_EXTEND: { int c = op.c % POOL; uivector *x = UIVectorExtend(p.U[a], p.U[b]); std::vector<size_t> s = p.sU[a]; s.insert(s.end(), p.sU[b].begin(), p.sU[b].end()); DelUIVector(&p.U[c]); p.U[c] = x; p.sU[c] = s; break; }
    case U_SET: setUIVectorValue(p.U[a], n1, n2); if (n1 < p.sU[a].size()) p.sU[a][n1] = n2; break;
    case U_GET: { if (n1 >= p.sU[a].size()) e.expect_abort = true; size_t g = getUIVectorValue(p.U[a], n1); if (n1 < p.sU[a].size() && g != p.sU[a][n1]) e.mismatch = "getUIVectorValue returned another value than was stored"; break; }
    case U_SETALL: UIVectorSet(p.U[a], n1); for (auto &x : p.sU[a]) x = n1; break;
    case U_SORT: SortUIVector(p.U[a]); std::sort(p.sU[a].begin(), p.sU[a].end()); break;
    case U_INDEXOF: { int g = UIVectorIndexOf(p.U[a], n1); int want = -1; for (size_t k = 0; k < p.sU[a].size(); k++) if (p.sU[a][k] == n1) { want = (int)k; break; } if (g != want) e.mismatch = "UIVectorIndexOf returned another position than the first occurrence"; break; }
    case U_HAS: { int g = UIVectorHasValue(p.U[a], n1); bool has = std::find(p.sU[a].begin(), p.sU[a].end(), n1) != p.sU[a].end(); if (g != (has ? 0 : 1)) e.mismatch = "UIVectorHasValue contradicts the contents (0 = present, 1 = absent)"; break; }
    case U_REINIT: DelUIVector(&p.U[a]); initUIVector(&p.U[a]); p.sU[a].clear(); break;
    // ---- ivector
    case I_NEW: DelIVector(&p.I[a]); NewIVector(&p.I[a], n1); p.sI[a].assign(n1, 0); break;
    case I_APPEND: IVectorAppend(p.I[a], (int)op.v); p.sI[a].push_back((int)op.v); break;
    case I_REMOVE: IVectorRemoveAt(p.I[a], n1); if (n1 < p.sI[a].size()) p.sI[a].erase(p.sI[a].begin() + n1); break;
    case I_EXTEND: { int c = op.c % POOL; ivector *x = IVectorExtend(p.I[a], p.I[b]); std::vector<int> s = p.sI[a]; s.insert(s.end(), p.sI[b].begin(), p.sI[b].end()); DelIVector(&p.I[c]); p.I[c] = x; p.sI[c] = s; break; }
    case I_SET: setIVectorValue(p.I[a], n1, (int)op.v); if (n1 < p.sI[a].size()) p.sI[a][n1] = (int)op.v; break;
    case I_GET: { if (n1 >= p.sI[a].size()) e.expect_abort = true; int g = getIVectorValue(p.I[a], n1); if (n1 < p.sI[a].size() && g != p.sI[a][n1]) e.mismatch = "getIVectorValue returned another value than was stored"; break; }
    case I_SETALL: IVectorSet(p.I[a], (int)op.v); for (auto &x : p.sI[a]) x = (int)op.v; break;
    case I_HAS: { int v = (int)op.v; int g = IVectorHasValue(p.I[a], v); bool has = std::find(p.sI[a].begin(), p.sI[a].end(), v) != p.sI[a].end(); if (g != (has ? 0 : 1)) e.mismatch = "IVectorHasValue contradicts the contents"; break; }
    case I_REINIT: DelIVector(&p.I[a]); initIVector(&p.I[a]); p.sI[a].clear(); break;
    // ---- strvector
    case S_APPEND: { char buf[64]; snprintf(buf, sizeof buf, "s%d_%d", op.b, op.c); StrVectorAppend(p.S[a], buf); p.sS[a].push_back(buf); break; }
    case S_APPEND_INT: { StrVectorAppendInt(p.S[a], op.b - 50); p.sS[a].push_back(std::to_string(op.b - 50)); break; }
    case S_APPEND_DBL: { StrVectorAppendDouble(p.S[a], op.v); char buf[400]; snprintf(buf, sizeof buf, "%f", op.v); p.sS[a].push_back(buf); break; }
    case S_SET: { if (p.sS[a].empty()) break; size_t i = n1 % p.sS[a].size(); char buf[64]; snprintf(buf, sizeof buf, "set%d", op.c); setStr(p.S[a], i, buf); p.sS[a][i] = buf; break; }
    case S_GET: { if (p.sS[a].empty()) break; size_t i = n1 % p.sS[a].size(); char *g = getStr(p.S[a], i); if (!g || p.sS[a][i] != g) e.mismatch = "getStr returned another string than was stored"; break; }
    case S_RESIZE: StrVectorResize(p.S[a], n1); p.sS[a].assign(n1, ""); break;
    case S_EXTEND: { int c = op.c % POOL; if (c == a || c == b) break; strvector *x = StrVectorExtend(p.S[a], p.S[b]); std::vector<std::string> s = p.sS[a]; s.insert(s.end(), p.sS[b].begin(), p.sS[b].end()); DelStrVector(&p.S[c]); p.S[c] = x; p.sS[c] = s; break; }
    case S_SPLIT: {  // "  t0;t1;...;tk  " split on ';' is appended token by token (leading/trailing blanks trimmed)
      int k = 1 + op.b % 4; std::string line = "  "; std::vector<std::string> toks;
      for (int q = 0; q < k; q++) { std::string t = "tok" + std::to_string(op.c + q); toks.push_back(t); line += t; if (q + 1 < k) line += ";"; }
      line += "  ";
      std::vector<char> buf(line.begin(), line.end()); buf.push_back(0); char sep[2] = {';', 0};
      SplitString(buf.data(), sep, p.S[a]);
      for (auto &t : toks) p.sS[a].push_back(t);
      break;
    }
    case S_REINIT: DelStrVector(&p.S[a]); initStrVector(&p.S[a]); p.sS[a].clear(); break;
    // ---- tensor
    case T_NEW: { size_t order = 1 + n1 % 3; DelTensor(&p.T[a]); NewTensor(&p.T[a], order); p.sT[a].clear(); for (size_t k = 0; k < order; k++) { NewTensorMatrix(p.T[a], k, n2, (size_t)op.v); SMat s; smat_shape(s, n2, (size_t)op.v); p.sT[a].push_back(s); } break; }
    case T_ADD: { AddTensorMatrix(p.T[a], n1, n2); SMat s; smat_shape(s, n1, n2); p.sT[a].push_back(s); break; }
    case T_APPEND_M: { if (!p.sT[a].empty() && p.sT[a].back().row != p.sM[b].row) e.expect_abort = true; TensorAppendMatrix(p.T[a], p.M[b]); p.sT[a].push_back(p.sM[b]); break; }
    case T_APPEND_COL: {
      if (p.sT[a].empty()) { e.expect_abort = true; TensorAppendColumn(p.T[a], 0, p.D[b]); break; }
      size_t k = n2 % p.sT[a].size(); SMat &s = p.sT[a][k]; std::vector<double> col = p.sD[b];
      size_t nr = s.row != 0 ? std::max(col.size(), s.row) : col.size();
      TensorAppendColumn(p.T[a], k, p.D[b]);
      while (s.d.size() < nr) s.d.push_back(std::vector<double>(s.col, 0.0));
      for (size_t i = 0; i < nr; i++) s.d[i].push_back(i < col.size() ? col[i] : 0.0);
      s.row = nr; s.col++;
      break;
    }
    case T_SET: { size_t k = (size_t)op.v; bool in = k < p.sT[a].size() && n1 < p.sT[a][k].row && n2 < p.sT[a][k].col; if (!in) e.expect_abort = true; setTensorValue(p.T[a], k, n1, n2, 1.5 + op.c); if (in) p.sT[a][k].d[n1][n2] = 1.5 + op.c; break; }
    case T_GET: { size_t k = (size_t)op.v; bool in = k < p.sT[a].size() && n1 < p.sT[a][k].row && n2 < p.sT[a][k].col; double g = getTensorValue(p.T[a], k, n1, n2); if (in) { if (!same_bits(g, p.sT[a][k].d[n1][n2])) e.mismatch = "getTensorValue returned another value than was stored"; } else if (g == g) e.mismatch = "out-of-range getTensorValue did not return NaN"; break; }
    case T_SETALL: TensorSet(p.T[a], op.v); for (auto &s : p.sT[a]) for (auto &r : s.d) for (double &x : r) x = op.v; break;
    case T_COPY: if (a == b) break; TensorCopy(p.T[a], &p.T[b]); p.sT[b] = p.sT[a]; for (auto &sm : p.sT[b]) for (auto &r : sm.d) for (double &x : r) x = stored(x); /* copies go through setTensorValue: NaN/Inf become the missing-value code */ break;
    case T_REINIT: DelTensor(&p.T[a]); initTensor(&p.T[a]); p.sT[a].clear(); break;
    // ---- list
    case L_APPEND: DVectorListAppend(p.L[a], p.D[b]); p.sL[a].push_back(p.sD[b]); break;
    case L_REINIT: DelDVectorList(&p.L[a]); initDVectorList(&p.L[a]); p.sL[a].clear(); break;
  }
}

static bool cmp_matrix(const matrix *m, const SMat &s, std::string *why) {
  if (m->row != s.row || m->col != s.col) { char b[160]; snprintf(b, sizeof b, "shape is %zux%zu, should be %zux%zu", m->row, m->col, s.row, s.col); *why = b; return false; }
  for (size_t i = 0; i < s.row; i++) for (size_t j = 0; j < s.col; j++) if (!same_bits(m->data[i][j], s.d[i][j])) { char b[160]; snprintf(b, sizeof b, "cell [%zu][%zu] is %.17g, should be %.17g", i, j, m->data[i][j], s.d[i][j]); *why = b; return false; }
  return true;
}

// compare every container with its shadow (all of them: an aliasing bug shows up in an untouched one)
static bool compare_all(Pools &p, std::string *why) {
  std::string w;
  for (int i = 0; i < POOL; i++) {
    if (!cmp_matrix(p.M[i], p.sM[i], &w)) { *why = "matrix " + std::to_string(i) + ": " + w; return false; }
    if (p.D[i]->size != p.sD[i].size()) { *why = "dvector " + std::to_string(i) + ": size " + std::to_string(p.D[i]->size) + " should be " + std::to_string(p.sD[i].size()); return false; }
    for (size_t k = 0; k < p.sD[i].size(); k++) if (!same_bits(p.D[i]->data[k], p.sD[i][k])) { char b[160]; snprintf(b, sizeof b, "dvector %d: [%zu] is %.17g, should be %.17g", i, k, p.D[i]->data[k], p.sD[i][k]); *why = b; return false; }
    if (p.U[i]->size != p.sU[i].size()) { *why = "uivector " + std::to_string(i) + ": size differs"; return false; }
    for (size_t k = 0; k < p.sU[i].size(); k++) if (p.U[i]->data[k] != p.sU[i][k]) { *why = "uivector " + std::to_string(i) + ": content differs"; return false; }
    if (p.I[i]->size != p.sI[i].size()) { *why = "ivector " + std::to_string(i) + ": size differs"; return false; }
    for (size_t k = 0; k < p.sI[i].size(); k++) if (p.I[i]->data[k] != p.sI[i][k]) { *why = "ivector " + std::to_string(i) + ": content differs"; return false; }
    if (p.S[i]->size != p.sS[i].size()) { *why = "strvector " + std::to_string(i) + ": size differs"; return false; }
    for (size_t k = 0; k < p.sS[i].size(); k++) if (!p.S[i]->data[k] || p.sS[i][k] != p.S[i]->data[k]) { *why = "strvector " + std::to_string(i) + ": string " + std::to_string(k) + " differs"; return false; }
    if (p.T[i]->order != p.sT[i].size()) { *why = "tensor " + std::to_string(i) + ": order " + std::to_string(p.T[i]->order) + " should be " + std::to_string(p.sT[i].size()); return false; }
    for (size_t k = 0; k < p.sT[i].size(); k++) if (!cmp_matrix(p.T[i]->m[k], p.sT[i][k], &w)) { *why = "tensor " + std::to_string(i) + " layer " + std::to_string(k) + ": " + w; return false; }
    if (p.L[i]->size != p.sL[i].size()) { *why = "dvectorlist " + std::to_string(i) + ": size differs"; return false; }
    for (size_t k = 0; k < p.sL[i].size(); k++) { if (p.L[i]->d[k]->size != p.sL[i][k].size()) { *why = "dvectorlist element size differs"; return false; } for (size_t q = 0; q < p.sL[i][k].size(); q++) if (!same_bits(p.L[i]->d[k]->data[q], p.sL[i][k][q])) { *why = "dvectorlist element content differs"; return false; } }
  }
  return true;
}

static std::string op_text(const OpRec &o) { char b[128]; snprintf(b, sizeof b, "%d:%d:%d:%d:%.17g:%d", o.code, o.a, o.b, o.c, o.v, o.fail_at); return b; }
static bool op_parse(const std::string &t, OpRec &o) { return sscanf(t.c_str(), "%d:%d:%d:%d:%lf:%d", &o.code, &o.a, &o.b, &o.c, &o.v, &o.fail_at) == 6 && o.code >= 0 && o.code < OP_COUNT; }

struct HCont : Harness {
  const char *engine() const override { return "h_cont"; }

  Plan generate(uint64_t seed) override {
    Plan p;
    Prng wr(seed, PURPOSE_WORKLOAD), mr(seed, PURPOSE_MACHINE), sr(seed, PURPOSE_SCHEDULE), fr(seed, PURPOSE_FAULTS);
    gen_machine(p, mr, sr, false, 1);
    p.seti("sched.strategy", 0); p.seti("sched.detect", 0); p.seti("machine.nproc", 1);
    int nops = (int)wr.range(1, 40);
    // swarm: each run enables a random subset of container kinds
    bool km = wr.chance(0.7), kd = wr.chance(0.8), ku = wr.chance(0.4), ki = wr.chance(0.3), ks = wr.chance(0.35), kt = wr.chance(0.4), kl = wr.chance(0.25);
    if (!(km || kd || ku || ki || ks || kt || kl)) km = kd = true;
    bool faulty = fr.chance(0.2);
    int fault_op = faulty ? (int)fr.below(nops) : -1;
    std::vector<std::string> ops;
    // sizes: zero sometimes, mostly small; now and then a large one (growth policies and size thresholds must not hide a path)
    auto around = [&](void) { uint64_t r = wr.below(200); return (int)(r < 3 ? wr.range(20, 200) : r < 20 ? 0 : r < 160 ? wr.range(1, 5) : wr.range(6, 12)); };
    for (int i = 0; i < nops; i++) {
      OpRec o; o.a = (int)wr.below(POOL); o.b = (int)wr.below(12); o.c = (int)wr.below(12); o.fail_at = i == fault_op ? (int)fr.range(1, 6) : 0;
      o.v = wr.chance(0.05) ? NAN : (wr.chance(0.5) ? (double)wr.range(-9, 9) : wr.uniform(-1e3, 1e3));
      std::vector<int> cands;
      if (km) for (int c : {M_NEW, M_RESIZE, M_COPY, M_APPEND_ROW, M_APPEND_ROW, M_APPEND_COL, M_APPEND_COL, M_DEL_ROW, M_DEL_COL, M_SET, M_GET, M_GETROW, M_GETCOL, M_SETALL, M_SORT, M_RSORT, M_REINIT}) cands.push_back(c);
      if (km && ku) for (int c : {M_APPEND_UIROW, M_APPEND_UICOL}) cands.push_back(c);
      if (kd || km || kt || kl) for (int c : {D_NEW, D_RESIZE, D_APPEND, D_APPEND, D_REMOVE, D_COPY, D_EXTEND, D_SET, D_GET, D_SETALL, D_SORT, D_REINIT}) cands.push_back(c);
      if (ku) for (int c : {U_NEW, U_RESIZE, U_APPEND, U_APPEND, U_REMOVE, U_EXTEND, U_SET, U_GET, U_SETALL, U_SORT, U_INDEXOF, U_HAS, U_REINIT}) cands.push_back(c);
      if (ki) for (int c : {I_NEW, I_APPEND, I_APPEND, I_REMOVE, I_EXTEND, I_SET, I_GET, I_SETALL, I_HAS, I_REINIT}) cands.push_back(c);
      if (ks) for (int c : {S_APPEND, S_APPEND, S_APPEND_INT, S_APPEND_DBL, S_SET, S_GET, S_RESIZE, S_EXTEND, S_SPLIT, S_REINIT}) cands.push_back(c);
      if (kt) for (int c : {T_NEW, T_ADD, T_ADD, T_APPEND_M, T_APPEND_COL, T_SET, T_GET, T_SETALL, T_COPY, T_COPY, T_REINIT}) cands.push_back(c);
      if (kl) for (int c : {L_APPEND, L_APPEND, L_REINIT}) cands.push_back(c);
      o.code = cands[wr.below(cands.size())];
      // size-like arguments drawn around small dimensions; index-like ones sometimes out of range
      switch (o.code) {
        case M_NEW: case M_RESIZE: case T_ADD: o.b = around(); o.c = around(); break;
        case T_NEW: o.b = (int)wr.below(3); o.c = around(); o.v = around(); break;
        case D_NEW: case D_RESIZE: case U_NEW: case U_RESIZE: case I_NEW: case S_RESIZE: o.b = around(); break;
        case U_APPEND: case U_SETALL: o.b = (int)wr.below(1000); break;
        case U_INDEXOF: case U_HAS: o.b = (int)wr.below(12); break;
        case U_SET: o.c = (int)wr.below(1000); break;
        case D_SET: case D_GET: case U_GET: case I_GET: if (wr.chance(0.85)) o.b = (int)wr.below(4); break;  // mostly in range for small vectors
        case T_SET: case T_GET: o.v = (double)wr.below(4); o.b = (int)wr.below(5); o.c = (int)wr.below(5); break;
        case S_APPEND_DBL: if (o.v != o.v) o.v = 1.25; break;
        case I_APPEND: case I_SET: case I_SETALL: if (o.v != o.v) o.v = 3; break;
        default: break;
      }
      ops.push_back(op_text(o));
    }
    p.setlist("ops", ops);
    return p;
  }

  Outcome execute(const Plan &p) override {
    Outcome o;
    sim_cfg sc; std::vector<sim_switch> rs; cfg_from_plan(p, sc, rs); sc.detect_races = 0; sc.nproc = 1;
    sim_begin_run(&sc);
    Pools *pools = new Pools(); pools_init(*pools);
    Hasher h;
    std::vector<std::string> ops = p.list("ops");
    std::set<int> kinds;
    int idx = 0;
    bool tainted = false;
    for (auto &t : ops) {
      OpRec op; if (!op_parse(t, op)) { idx++; continue; }
      kinds.insert(op.code);
      // after an absorbed allocation failure the shadow no longer describes the containers: only operations that are valid on a
      // container in ANY consistent state are issued (no index taken modulo a shadow size, no documented-abort expectations)
      if (tainted) {
        static const int shape_free[] = {M_NEW, M_RESIZE, M_COPY, M_APPEND_ROW, M_APPEND_COL, M_APPEND_UIROW, M_APPEND_UICOL, M_SETALL, M_REINIT, M_GET, M_SET, M_GETROW, M_GETCOL,
                                         D_NEW, D_RESIZE, D_APPEND, D_REMOVE, D_COPY, D_EXTEND, D_SETALL, D_SORT, D_REINIT, U_NEW, U_RESIZE, U_APPEND, U_REMOVE, U_EXTEND, U_SET, U_SETALL, U_SORT, U_INDEXOF, U_HAS, U_REINIT,
                                         I_NEW, I_APPEND, I_REMOVE, I_EXTEND, I_SET, I_SETALL, I_HAS, I_REINIT, S_APPEND, S_APPEND_INT, S_APPEND_DBL, S_RESIZE, S_EXTEND, S_SPLIT, S_REINIT,
                                         T_NEW, T_ADD, T_SETALL, T_COPY, T_GET, T_REINIT, L_APPEND, L_REINIT};
        bool ok = false; for (int c2 : shape_free) if (c2 == op.code) ok = true;
        if (!ok) { idx++; continue; }
        o.counters["probe.op_after_absorbed_alloc_failure"]++;
      }
      Exec e; e.p = pools; e.op = &op; e.o = &o;
      if (op.fail_at) sim_alloc_fail_at((uint64_t)op.fail_at); else sim_alloc_fail_at(0);
      uint64_t fails_before = sim_alloc_failures();
      int rc = sim_guard(apply_op, &e);
      bool failed_alloc = sim_alloc_failures() > fails_before;
      sim_alloc_fail_at(0);
      h.u64((uint64_t)op.code * 31 + rc);
      o.counters[std::string("op.") + op_name[op.code]]++;
      if (rc == SIM_ABORTED) {
        if (failed_alloc) o.counters["fault.alloc_failure_clean_abort"]++;
        else if (e.expect_abort) o.counters["probe.documented_abort_taken"]++;
        else {
          char m[300]; snprintf(m, sizeof m, "operation %d (%s, args %d %d %d) aborted although it is a valid call", idx, op_name[op.code], op.a, op.b, op.c);
          o.fail(std::string("abort-on-valid:") + op_name[op.code], m); break;
        }
        // nothing survives a crash: discard the pools (leaked) and continue on fresh ones
        pools = new Pools(); pools_init(*pools); tainted = false;
      } else {
        if (failed_alloc) {
          // The failed allocation was absorbed without the documented abort.  Contents are unspecified from here on (no shadow
          // comparison any more), but memory safety still has to hold: the history goes on over the same containers, and a
          // later NULL dereference or use of a half-built object is reported by the sanitizers like any other violation.
          o.counters["fault.alloc_failure_absorbed"]++;
          tainted = true;
        } else if (tainted) {
          // nothing to compare
        } else {
          if (!e.mismatch.empty()) { char m[400]; snprintf(m, sizeof m, "operation %d (%s): %s", idx, op_name[op.code], e.mismatch.c_str()); o.fail(std::string("shadow-mismatch:") + op_name[op.code], m); break; }
          std::string why;
          if (!compare_all(*pools, &why)) { char m[500]; snprintf(m, sizeof m, "after operation %d (%s, args %d %d %d): %s", idx, op_name[op.code], op.a, op.b, op.c, why.c_str()); o.fail(std::string("shadow-mismatch:") + op_name[op.code], m); break; }
        }
      }
      idx++;
    }
    if (!o.violation) { sim_guard([](void *q) { pools_free(*(Pools *)q); }, pools); }
    sim_result sr; sim_end_run(&sr);
    fill_outcome_from_sim(o, sr, 0);
    o.counters["alloc.calls"] += sr.allocs; o.counters["alloc.realloc_moves"] += sr.realloc_moves;
    o.nontrivial = ops.size() >= 2;
    h.str(o.cls); o.hash = h.h;
    // configuration tuple = set of operation kinds used; schedule signature slot carries the history hash
    std::string cfg; for (int k : kinds) { cfg += std::to_string(k); cfg += ','; }
    o.cfg = cfg; o.sched_sig = std::hash<std::string>()(p.get("ops"));
    return o;
  }

  std::vector<Plan> shrink(const Plan &p) override {
    std::vector<Plan> out;
    std::vector<std::string> ops = p.list("ops");
    size_t n = ops.size();
    for (size_t chunk = n / 2; chunk >= 1; chunk /= 2) {
      for (size_t s = 0; s < n; s += chunk) {
        std::vector<std::string> keep;
        for (size_t i = 0; i < n; i++) if (i < s || i >= s + chunk) keep.push_back(ops[i]);
        if (keep.empty()) continue;
        Plan q = p; q.setlist("ops", keep); out.push_back(q);
        if (out.size() > 80) return out;
      }
      if (chunk == 1) break;
    }
    // simplify arguments of single operations
    for (size_t i = 0; i < n && out.size() < 120; i++) {
      OpRec o; if (!op_parse(ops[i], o)) continue;
      OpRec s = o; bool ch = false;
      if (s.fail_at) { s.fail_at = 0; ch = true; }
      else if (s.b > 3 && s.code != U_APPEND) { s.b = s.b / 2; ch = true; }
      else if (s.c > 3) { s.c = s.c / 2; ch = true; }
      if (ch) { std::vector<std::string> k = ops; k[i] = op_text(s); Plan q = p; q.setlist("ops", k); out.push_back(q); }
    }
    if (p.geti("machine.realloc_move_pct")) { Plan q = p; q.seti("machine.realloc_move_pct", 0); out.push_back(q); }
    return out;
  }
};

int main(int argc, char **argv) { HCont h; return harness_main(h, argc, argv); }
