// C16 — a saved model reads back equal to the model last written, whatever came before.
// Histories of Write/Read over 1..2 paths on the simulated disk (SQLite VFS shim) with faults
// attached to operations: I/O error, disk full, short write, kill at the k-th VFS call.
#include "lib.hpp"
#include "../sim/vfs.h"
#include <algorithm>
#include <sys/stat.h>
#include <dirent.h>

struct Field { std::string name; std::vector<size_t> shape; std::vector<double> v; };
typedef std::vector<Field> Snap;

static void f_vec(Snap &s, const char *n, const dvector *d) { Field f; f.name = n; f.shape = {d->size}; f.v.assign(d->data, d->data + d->size); s.push_back(f); }
static void f_mat(Snap &s, const char *n, const matrix *m) { Field f; f.name = n; f.shape = {m->row, m->col}; for (size_t i = 0; i < m->row; i++) for (size_t j = 0; j < m->col; j++) f.v.push_back(m->data[i][j]); s.push_back(f); }
static void f_ten(Snap &s, const char *n, const tensor *t) { Field f; f.name = n; f.shape = {t->order}; for (size_t k = 0; k < t->order; k++) { f.shape.push_back(t->m[k]->row); f.shape.push_back(t->m[k]->col); for (size_t i = 0; i < t->m[k]->row; i++) for (size_t j = 0; j < t->m[k]->col; j++) f.v.push_back(t->m[k]->data[i][j]); } s.push_back(f); }
static void f_lst(Snap &s, const char *n, const dvectorlist *l) { Field f; f.name = n; f.shape = {l->size}; for (size_t k = 0; k < l->size; k++) { f.shape.push_back(l->d[k]->size); for (size_t i = 0; i < l->d[k]->size; i++) f.v.push_back(l->d[k]->data[i]); } s.push_back(f); }

// the fields each writer documents as persisted (io.c); PCA's dmodx is by design not stored
static Snap snap_pca(const PCAMODEL *m, bool all) { Snap s; f_vec(s, "colaverage", m->colaverage); f_vec(s, "colscaling", m->colscaling); f_vec(s, "varexp", m->varexp); f_mat(s, "scores", m->scores); f_mat(s, "loadings", m->loadings); if (all) f_mat(s, "dmodx", m->dmodx); return s; }
static Snap snap_cpca(const CPCAMODEL *m) { Snap s; f_vec(s, "scaling_factor", m->scaling_factor); f_vec(s, "total_expvar", m->total_expvar); f_ten(s, "block_scores", m->block_scores); f_ten(s, "block_loadings", m->block_loadings); f_mat(s, "super_scores", m->super_scores); f_mat(s, "super_weights", m->super_weights); f_lst(s, "block_expvar", m->block_expvar); f_lst(s, "colaverage", m->colaverage); f_lst(s, "colscaling", m->colscaling); return s; }
static Snap snap_pls(const PLSMODEL *m) {
  Snap s;
  f_vec(s, "xcolscaling", m->xcolscaling); f_vec(s, "xcolaverage", m->xcolaverage); f_vec(s, "ycolscaling", m->ycolscaling); f_vec(s, "ycolaverage", m->ycolaverage); f_vec(s, "xvarexp", m->xvarexp); f_vec(s, "b", m->b);
  f_mat(s, "xscores", m->xscores); f_mat(s, "xloadings", m->xloadings); f_mat(s, "xweights", m->xweights); f_mat(s, "yscores", m->yscores); f_mat(s, "yloadings", m->yloadings);
  f_mat(s, "recalculated_y", m->recalculated_y); f_mat(s, "recalc_residuals", m->recalc_residuals); f_mat(s, "predicted_y", m->predicted_y); f_mat(s, "pred_residuals", m->pred_residuals);
  f_mat(s, "r2y_validation", m->r2y_validation); f_mat(s, "r2y_recalculated", m->r2y_recalculated); f_mat(s, "q2y", m->q2y); f_mat(s, "sdep", m->sdep); f_mat(s, "sdec", m->sdec); f_mat(s, "bias", m->bias);
  f_mat(s, "roc_auc_recalculated", m->roc_auc_recalculated); f_mat(s, "roc_auc_validation", m->roc_auc_validation); f_mat(s, "precision_recall_ap_recalculated", m->precision_recall_ap_recalculated);
  f_mat(s, "precision_recall_ap_validation", m->precision_recall_ap_validation); f_mat(s, "yscrambling", m->yscrambling);
  f_ten(s, "roc_recalculated", m->roc_recalculated); f_ten(s, "roc_validation", m->roc_validation); f_ten(s, "precision_recall_recalculated", m->precision_recall_recalculated); f_ten(s, "precision_recall_validation", m->precision_recall_validation);
  return s;
}
static bool snap_bits_equal(const Snap &a, const Snap &b) {
  if (a.size() != b.size()) return false;
  for (size_t i = 0; i < a.size(); i++) { if (a[i].shape != b[i].shape || a[i].v.size() != b[i].v.size()) return false; for (size_t k = 0; k < a[i].v.size(); k++) if (!same_bits(a[i].v[k], b[i].v[k])) return false; }
  return true;
}
// read-back equality per the property: same dimensions, every number within 1e-15*max(1,|v|)
static bool snap_close(const Snap &saved, const Snap &got, std::string *why) {
  for (size_t i = 0; i < saved.size(); i++) {
    const Field &a = saved[i], &b = got[i];
    if (a.shape != b.shape) {
      char m[300]; std::string sa, sb; for (size_t x : a.shape) sa += std::to_string(x) + " "; for (size_t x : b.shape) sb += std::to_string(x) + " ";
      snprintf(m, sizeof m, "field %s: written dimensions [%s] read back as [%s]", a.name.c_str(), sa.c_str(), sb.c_str()); *why = m; return false;
    }
    for (size_t k = 0; k < a.v.size(); k++) {
      double tol = 1e-15 * fmax(1.0, fabs(a.v[k]));
      if (!(fabs(a.v[k] - b.v[k]) <= tol)) { char m[300]; snprintf(m, sizeof m, "field %s[%zu]: written %.17g read %.17g", a.name.c_str(), k, a.v[k], b.v[k]); *why = m; return false; }
    }
  }
  return true;
}

enum { KIND_PCA = 0, KIND_CPCA = 1, KIND_PLS = 2 };
static const char *kind_name[] = {"PCA", "CPCA", "PLS"};

struct Model {
  int kind = 0; bool fitted = false, ok = false;
  PCAMODEL *pca = nullptr; CPCAMODEL *cpca = nullptr; PLSMODEL *pls = nullptr;
  Mat X, Y; std::vector<Mat> blocks; int npc = 1;
  Snap snap() const { return kind == KIND_PCA ? snap_pca(pca, false) : kind == KIND_CPCA ? snap_cpca(cpca) : snap_pls(pls); }
};

// visit every persisted number of a model in place (same order for every call)
template <class F> static void walk_vec(dvector *d, F &f) { for (size_t i = 0; i < d->size; i++) f(d->data[i]); }
template <class F> static void walk_mat(matrix *m, F &f) { for (size_t i = 0; i < m->row; i++) for (size_t j = 0; j < m->col; j++) f(m->data[i][j]); }
template <class F> static void walk_ten(tensor *t, F &f) { for (size_t k = 0; k < t->order; k++) walk_mat(t->m[k], f); }
template <class F> static void walk_lst(dvectorlist *l, F &f) { for (size_t k = 0; k < l->size; k++) walk_vec(l->d[k], f); }
template <class F> static void walk_model(const Model &m, F f) {
  if (m.kind == KIND_PCA) { walk_vec(m.pca->colaverage, f); walk_vec(m.pca->colscaling, f); walk_mat(m.pca->scores, f); walk_mat(m.pca->loadings, f); }
  else if (m.kind == KIND_CPCA) { walk_vec(m.cpca->scaling_factor, f); walk_ten(m.cpca->block_scores, f); walk_ten(m.cpca->block_loadings, f); walk_mat(m.cpca->super_scores, f); walk_mat(m.cpca->super_weights, f); walk_lst(m.cpca->colaverage, f); walk_lst(m.cpca->colscaling, f); }
  else { walk_vec(m.pls->xcolscaling, f); walk_vec(m.pls->xcolaverage, f); walk_vec(m.pls->ycolscaling, f); walk_vec(m.pls->ycolaverage, f); walk_vec(m.pls->b, f);
         walk_mat(m.pls->xscores, f); walk_mat(m.pls->xloadings, f); walk_mat(m.pls->xweights, f); walk_mat(m.pls->yscores, f); walk_mat(m.pls->yloadings, f); }
}

struct FitArg { Model *m; int scaling, ys; };
static void fit_model(void *a_) {
  FitArg &a = *(FitArg *)a_; Model &m = *a.m;
  if (m.kind == KIND_PCA) { matrix *x = to_matrix(m.X); PCA(x, a.scaling, (size_t)m.npc, m.pca, NULL); DelMatrix(&x); }
  else if (m.kind == KIND_CPCA) { tensor *t; initTensor(&t); for (auto &b : m.blocks) { matrix *x = to_matrix(b); TensorAppendMatrix(t, x); DelMatrix(&x); } CPCA(t, a.scaling, (size_t)m.npc, m.cpca); DelTensor(&t); }
  else { matrix *x = to_matrix(m.X), *y = to_matrix(m.Y); PLS(x, y, (size_t)m.npc, (size_t)a.scaling, (size_t)a.ys, m.pls, NULL); DelMatrix(&x); DelMatrix(&y); }
}

// synthetic models: every persisted field filled with values of magnitude 1e-9..1e9, some optional fields left empty
// a cell: mostly a full-precision value of the given magnitude; sometimes an exact integer, an exact zero or a negative zero (formatting corner cases)
static double cell(Prng &r, double scale) { double v = r.normal() * scale; uint64_t q = r.below(100); if (q < 5) return fabs(v) < 9e15 ? (double)(long long)v : v; if (q < 7) return 0.0; if (q < 8) return -0.0; return v; }
static void fill_vec(dvector *d, size_t n, Prng &r, double scale) { DVectorResize(d, n); for (size_t i = 0; i < n; i++) d->data[i] = cell(r, scale); }
static void fill_mat(matrix *m, size_t a, size_t b, Prng &r, double scale) { ResizeMatrix(m, a, b); for (size_t i = 0; i < a; i++) for (size_t j = 0; j < b; j++) m->data[i][j] = cell(r, scale); }
static double any_scale(Prng &r) { return pow(10.0, (double)r.range(-9, 9)); }
static void synth_model(Model &m, Prng &r) {
  size_t n = (size_t)r.range(1, 7), p = (size_t)r.range(1, 4), k = (size_t)r.range(1, 3);
  if (r.chance(0.04)) { n = (size_t)r.range(20, 60); p = (size_t)r.range(10, 40); k = (size_t)r.range(3, 8); }  // now and then a large model (long rows, many rows)
  if (m.kind == KIND_PCA) {
    fill_vec(m.pca->colaverage, p, r, any_scale(r)); if (r.chance(0.6)) fill_vec(m.pca->colscaling, p, r, any_scale(r));
    fill_vec(m.pca->varexp, k, r, 10); fill_mat(m.pca->scores, n, k, r, any_scale(r)); fill_mat(m.pca->loadings, p, k, r, 1);
  } else if (m.kind == KIND_CPCA) {
    size_t nb = (size_t)r.range(1, 3);
    fill_vec(m.cpca->scaling_factor, nb, r, 1); fill_vec(m.cpca->total_expvar, k, r, 10);
    fill_mat(m.cpca->super_scores, n, k, r, any_scale(r)); fill_mat(m.cpca->super_weights, nb, k, r, 1);
    for (size_t b = 0; b < nb; b++) {
      size_t pb = (size_t)r.range(1, 3);
      AddTensorMatrix(m.cpca->block_scores, n, k); for (size_t i = 0; i < n; i++) for (size_t j = 0; j < k; j++) m.cpca->block_scores->m[b]->data[i][j] = r.normal() * any_scale(r);
      AddTensorMatrix(m.cpca->block_loadings, pb, k); for (size_t i = 0; i < pb; i++) for (size_t j = 0; j < k; j++) m.cpca->block_loadings->m[b]->data[i][j] = r.normal();
      dvector *v; NewDVector(&v, k); for (size_t i = 0; i < k; i++) v->data[i] = r.unit() * 100; DVectorListAppend(m.cpca->block_expvar, v); DelDVector(&v);
      NewDVector(&v, pb); for (size_t i = 0; i < pb; i++) v->data[i] = r.normal() * any_scale(r); DVectorListAppend(m.cpca->colaverage, v); DelDVector(&v);
      NewDVector(&v, r.chance(0.5) ? pb : 0); for (size_t i = 0; i < v->size; i++) v->data[i] = r.unit() + 0.1; DVectorListAppend(m.cpca->colscaling, v); DelDVector(&v);
    }
  } else {
    size_t ny = (size_t)r.range(1, 2);
    fill_vec(m.pls->xcolaverage, p, r, any_scale(r)); if (r.chance(0.5)) fill_vec(m.pls->xcolscaling, p, r, 1); fill_vec(m.pls->ycolaverage, ny, r, any_scale(r)); if (r.chance(0.5)) fill_vec(m.pls->ycolscaling, ny, r, 1);
    fill_vec(m.pls->xvarexp, k, r, 10); fill_vec(m.pls->b, k, r, 1);
    fill_mat(m.pls->xscores, n, k, r, any_scale(r)); fill_mat(m.pls->xloadings, p, k, r, 1); fill_mat(m.pls->xweights, p, k, r, 1); fill_mat(m.pls->yscores, n, k, r, any_scale(r)); fill_mat(m.pls->yloadings, ny, k, r, 1);
    fill_mat(m.pls->recalculated_y, n, ny * k, r, any_scale(r)); fill_mat(m.pls->recalc_residuals, n, ny * k, r, 1);
    if (r.chance(0.4)) { fill_mat(m.pls->predicted_y, n, ny * k, r, any_scale(r)); fill_mat(m.pls->pred_residuals, n, ny * k, r, 1); fill_mat(m.pls->q2y, k, ny, r, 1); fill_mat(m.pls->sdep, k, ny, r, 1); fill_mat(m.pls->bias, k, ny, r, 1); }
    if (r.chance(0.3)) { AddTensorMatrix(m.pls->roc_recalculated, 3, 2); m.pls->roc_recalculated->m[0]->data[1][1] = r.unit(); fill_mat(m.pls->roc_auc_recalculated, k, ny, r, 1); }
    if (r.chance(0.3)) fill_mat(m.pls->yscrambling, 3, 3 * ny, r, 1);
    if (r.chance(0.4)) { fill_mat(m.pls->sdec, k, ny, r, 1); fill_mat(m.pls->r2y_recalculated, k, ny, r, 1); }   // fit statistics independent of the validation ones
    if (r.chance(0.15)) ResizeMatrix(m.pls->r2y_validation, 0, (size_t)r.range(1, 3));   // a field with columns but no rows: 0 x c must read back as 0 x c
    if (r.chance(0.15)) ResizeMatrix(m.pls->roc_auc_validation, (size_t)r.range(1, 3), 0);
  }
}

struct HIo : Harness {
  const char *engine() const override { return "h_io"; }
  std::string scratch;
  uint64_t scratch_n = 0;

  Plan generate(uint64_t seed) override {
    Plan p;
    Prng wr(seed, PURPOSE_WORKLOAD), mr(seed, PURPOSE_MACHINE), sr(seed, PURPOSE_SCHEDULE), fr(seed, PURPOSE_FAULTS);
    gen_machine(p, mr, sr, false, 4);
    p.seti("sched.strategy", 0); p.seti("sched.detect", 0);
    int nmodels = (int)wr.range(2, 4);
    std::vector<std::string> ms;
    for (int i = 0; i < nmodels; i++) {
      int kind = (int)wr.below(3); bool fitted = wr.chance(0.55);
      char b[128];
      // kind:fitted:rows:cols:npc:scaling:exp:blocks:ycols
      snprintf(b, sizeof b, "%d:%d:%d:%d:%d:%d:%d:%d:%d", kind, fitted ? 1 : 0, (int)wr.range(4, 9), (int)wr.range(2, 4), (int)wr.range(1, 2), (int)wr.below(3) ? (int)wr.below(2) : 0, (int)wr.range(-9, 9), (int)wr.range(2, 3), (int)wr.range(1, 2));
      ms.push_back(b);
    }
    p.setlist("models", ms);
    int npaths = (int)wr.range(1, 2), nops = (int)wr.range(1, 5);
    p.seti("paths", npaths);
    bool faulty = fr.chance(0.4);
    int fault_op = faulty ? (int)fr.below(nops) : -1;
    std::vector<std::string> ops;
    std::vector<int> last_kind(npaths, -1);
    for (int i = 0; i < nops; i++) {
      int path = (int)wr.below(npaths);
      bool can_read = last_kind[path] >= 0;
      bool rd = can_read && wr.chance(i == nops - 1 ? 0.8 : 0.35);
      char b[96];
      if (rd && i != fault_op) snprintf(b, sizeof b, "R:%d", path);
      else { int mi = (int)wr.below(nmodels); snprintf(b, sizeof b, "W:%d:%d", path, mi); last_kind[path] = 1; }
      ops.push_back(b);
    }
    // a history always ends with a read of something determinate if possible
    p.setlist("ops", ops);
    if (faulty) {
      static const int kinds[] = {SIMVFS_IOERR, SIMVFS_FULL, SIMVFS_KILL, SIMVFS_KILL, SIMVFS_SHORT};
      char b[96]; snprintf(b, sizeof b, "%d:%d:%.6f:%d", fault_op, kinds[fr.below(5)], fr.unit(), (int)fr.below(2));
      p.set("fault", b);  // op:kind:fraction of the operation's VFS calls:torn
    }
    p.setu("data.seed", wr.next() >> 4);
    return p;
  }

  static void rm_rf(const std::string &d) {
    DIR *dir = opendir(d.c_str()); if (!dir) return;
    while (dirent *e = readdir(dir)) { if (!strcmp(e->d_name, ".") || !strcmp(e->d_name, "..")) continue; unlink((d + "/" + e->d_name).c_str()); }
    closedir(dir); rmdir(d.c_str());
  }
  static bool copy_file(const std::string &a, const std::string &b) {
    FILE *fa = fopen(a.c_str(), "rb"); if (!fa) return false;
    FILE *fb = fopen(b.c_str(), "wb"); if (!fb) { fclose(fa); return false; }
    char buf[65536]; size_t n; while ((n = fread(buf, 1, sizeof buf, fa)) > 0) fwrite(buf, 1, n, fb);
    fclose(fa); fclose(fb); return true;
  }

  struct WArg { Model *m; std::string path; int kind; uint64_t at; int torn; };
  static void do_write(void *a_) {
    WArg &a = *(WArg *)a_;
    simvfs_begin_op(a.kind, a.at, a.torn);
    char *pth = (char *)a.path.c_str();
    if (a.m->kind == KIND_PCA) WritePCA(pth, a.m->pca); else if (a.m->kind == KIND_CPCA) WriteCPCA(pth, a.m->cpca); else WritePLS(pth, a.m->pls);
    simvfs_end_op();
  }
  static void do_write_guarded(void *a_) { sim_guard(do_write, a_); }
  struct RArg { Model *dst; std::string path; };
  static void do_read(void *a_) {
    RArg &a = *(RArg *)a_;
    simvfs_begin_op(SIMVFS_NONE, 0, 0);
    char *pth = (char *)a.path.c_str();
    if (a.dst->kind == KIND_PCA) ReadPCA(pth, a.dst->pca); else if (a.dst->kind == KIND_CPCA) ReadCPCA(pth, a.dst->cpca); else ReadPLS(pth, a.dst->pls);
    simvfs_end_op();
  }
  struct PArg { const Model *src; const Model *m; Mat out; };
  static void do_predict(void *a_) {
    PArg &a = *(PArg *)a_;
    const Model &s = *a.src;
    if (s.kind == KIND_PCA) { matrix *x = to_matrix(s.X), *o; initMatrix(&o); PCAScorePredictor(x, a.m->pca, (size_t)s.npc, o); a.out = from_matrix(o); DelMatrix(&o); DelMatrix(&x); }
    else if (s.kind == KIND_PLS) { matrix *x = to_matrix(s.X), *o; initMatrix(&o); PLSYPredictorAllLV(x, a.m->pls, NULL, o); a.out = from_matrix(o); DelMatrix(&o); DelMatrix(&x); }
    else { tensor *t; initTensor(&t); for (auto &b : s.blocks) { matrix *x = to_matrix(b); TensorAppendMatrix(t, x); DelMatrix(&x); } matrix *o; initMatrix(&o); tensor *bs; initTensor(&bs);
           CPCAScorePredictor(t, a.m->cpca, (size_t)s.npc, o, bs); a.out = from_matrix(o); DelMatrix(&o); DelTensor(&bs); DelTensor(&t); }
  }
  static void new_model(Model &m) { if (m.kind == KIND_PCA) NewPCAModel(&m.pca); else if (m.kind == KIND_CPCA) NewCPCAModel(&m.cpca); else NewPLSModel(&m.pls); }
  static void del_model(Model &m) { if (m.pca) DelPCAModel(&m.pca); if (m.cpca) DelCPCAModel(&m.cpca); if (m.pls) DelPLSModel(&m.pls); m.pca = nullptr; m.cpca = nullptr; m.pls = nullptr; }

  Outcome execute(const Plan &p) override {
    Outcome o;
    simvfs_install();
    simvfs_reset_stats();
    const char *root = getenv("SIM_SCRATCH_ROOT");
    char dir[256]; snprintf(dir, sizeof dir, "%s/lsci-verif.%d.%llu", root && *root ? root : "/dev/shm", (int)getpid(), (unsigned long long)++scratch_n);
    scratch = dir; mkdir(dir, 0700);
    sim_cfg sc; std::vector<sim_switch> rs; cfg_from_plan(p, sc, rs); sc.step_limit = 0; sc.detect_races = 0; sc.nproc = 1;  // model fitting is not what C16 is about: no worker threads here
    sim_begin_run(&sc);
    Prng dr(p.getu("data.seed"), PURPOSE_WORKLOAD);
    // ---- model pool
    std::vector<Model> pool;
    for (auto &spec : p.list("models")) {
      int kind, fitted, rows, cols, npc, scaling, ex, blocks, yc;
      if (sscanf(spec.c_str(), "%d:%d:%d:%d:%d:%d:%d:%d:%d", &kind, &fitted, &rows, &cols, &npc, &scaling, &ex, &blocks, &yc) != 9) continue;
      Model m; m.kind = kind; m.fitted = fitted; m.npc = std::min(npc, cols); new_model(m);
      Prng mr(dr.next(), PURPOSE_WORKLOAD);
      double scale = pow(10.0, ex);
      if (fitted) {
        m.X = random_mat(mr, rows, cols, -0.5, 0.5); for (auto &r : m.X) for (double &v : r) v = v * scale + scale * 3;
        m.Y = random_mat(mr, rows, yc, -0.5, 0.5);
        for (int b = 0; b < blocks; b++) { Mat B = random_mat(mr, rows, cols, -0.5, 0.5); for (auto &r : B) for (double &v : r) v *= scale; m.blocks.push_back(B); }
        FitArg fa{&m, scaling, 0};
        sim_set_step_limit(sim_steps_now() + 1500000ULL);
        int rc = sim_guard(fit_model, &fa);
        sim_set_step_limit(0);
        bool finite = true;
        if (rc == SIM_OK) { Snap sn = m.snap(); for (auto &f : sn) for (double v : f.v) if (!std::isfinite(v)) finite = false; }
        if (rc != SIM_OK || !finite) {  // degenerate fit (C18 territory) or non-finite numbers: outside C16's domain, use a synthetic model instead
          o.counters[rc != SIM_OK ? "skipped.fit_did_not_finish" : "skipped.fit_not_finite"]++;
          if (rc == SIM_OK) del_model(m);
          m.pca = nullptr; m.cpca = nullptr; m.pls = nullptr;
          new_model(m); m.fitted = false; synth_model(m, mr);
        }
      } else synth_model(m, mr);
      m.ok = true;
      pool.push_back(m);
    }
    // ---- history
    int npaths = (int)p.geti("paths", 1);
    struct Ref { int model = -1; bool determinate = false; int writes = 0; };
    std::vector<Ref> ref(npaths);
    int fop = -1, fkind = 0, ftorn = 0; double ffrac = 0;
    if (p.has("fault")) sscanf(p.get("fault").c_str(), "%d:%d:%lf:%d", &fop, &fkind, &ffrac, &ftorn);
    std::vector<std::string> ops = p.list("ops");
    Hasher h;
    int opi = 0;
    for (auto &op : ops) {
      int path = 0, mi = 0;
      bool is_write = op[0] == 'W';
      if (is_write) { if (sscanf(op.c_str(), "W:%d:%d", &path, &mi) != 2) continue; } else { if (sscanf(op.c_str(), "R:%d", &path) != 1) continue; }
      if (path >= npaths || pool.empty()) { opi++; continue; }
      std::string file = scratch + "/m" + std::to_string(path) + ".sqlite3";
      if (is_write) {
        Model &m = pool[mi % pool.size()];
        Snap before; { Snap s = m.kind == KIND_PCA ? snap_pca(m.pca, true) : m.snap(); before = s; }
        bool faulted = opi == fop;
        if (faulted) {
          // dry run on a copy to learn how many VFS calls this very operation makes on this very pre-state
          std::string copy = scratch + "/dry.sqlite3";
          unlink(copy.c_str()); unlink((copy + "-journal").c_str());
          copy_file(file, copy); copy_file(file + "-journal", copy + "-journal");
          WArg dry{&m, copy, SIMVFS_NONE, 0, 0};
          sim_guard(do_write, &dry);
          uint64_t calls = simvfs_calls();
          unlink(copy.c_str()); unlink((copy + "-journal").c_str());
          uint64_t at = 1 + (uint64_t)(ffrac * (double)calls); if (at > calls) at = calls;
          WArg wa{&m, file, fkind, at, ftorn};
          int st = sim_fork_run(do_write_guarded, &wa);
          static const char *fk[] = {"none", "vfs_io_error", "vfs_disk_full", "vfs_kill", "vfs_short_write"};
          o.counters[std::string("fault.planned.") + fk[fkind] + (fkind == SIMVFS_KILL && ftorn ? "_torn" : "")]++;
          if (st == SIMVFS_KILL_EXIT || st == SIMVFS_FIRED_EXIT) o.counters[std::string("fault.fired.") + fk[fkind] + (fkind == SIMVFS_KILL && ftorn ? "_torn" : "")]++;  // fired, not merely planned
          if (st == SIMVFS_FIRED_EXIT) o.counters["probe.write_returned_after_injected_error"]++;
          if (st == SIMVFS_KILL_EXIT) o.counters["probe.write_killed_midway"]++;
          else if (st == 0 || st == SIMVFS_FIRED_EXIT) o.counters["probe.faulted_write_returned"]++;
          else o.counters["probe.faulted_write_child_died"]++;
          struct stat sb; if (stat((file + "-journal").c_str(), &sb) == 0 && sb.st_size > 0) o.counters["probe.hot_journal_left"]++;
          ref[path].determinate = false; ref[path].model = -1; ref[path].writes++;
          h.u64(0xF0 + fkind); h.u64(at); h.u64((uint64_t)st);
          o.nontrivial = true;
        } else {
          WArg wa{&m, file, SIMVFS_NONE, 0, 0};
          int rc = sim_guard(do_write, &wa);
          h.u64(simvfs_calls());
          if (rc != SIM_OK) { o.fail("write-aborted", std::string("Write") + kind_name[m.kind] + " aborted without any injected fault"); break; }
          if (ref[path].writes > 0) { o.counters["probe.rewrite_same_path"]++; if (!ref[path].determinate) o.counters["probe.write_after_faulted_write"]++; }
          ref[path].determinate = true; ref[path].model = mi % (int)pool.size(); ref[path].writes++;
          if (ref[path].writes >= 2) o.nontrivial = true;
        }
        Snap after = m.kind == KIND_PCA ? snap_pca(m.pca, true) : m.snap();
        if (!snap_bits_equal(before, after)) { o.fail("write-modified-model", std::string("Write") + kind_name[m.kind] + " changed the in-memory model"); break; }
      } else {
        if (!ref[path].determinate) { o.counters["skipped.read_of_indeterminate_path"]++; opi++; continue; }
        Model &saved = pool[ref[path].model];
        Model got; got.kind = saved.kind; new_model(got);
        RArg ra{&got, file};
        int rc = sim_guard(do_read, &ra);
        h.u64(simvfs_calls());
        if (rc != SIM_OK) { o.fail("read-aborted", std::string("Read") + kind_name[saved.kind] + " aborted on a file whose last write completed"); break; }
        Snap a = saved.snap(), b = got.snap();
        std::string why;
        for (auto &f : b) { h.str(f.name); for (size_t x : f.shape) h.u64(x); for (double v : f.v) h.dbl(v); }
        if (!snap_close(a, b, &why)) {
          char m[500]; snprintf(m, sizeof m, "Read%s after %d write(s) to the path: %s", kind_name[saved.kind], ref[path].writes, why.c_str());
          o.fail(ref[path].writes > 1 ? "stale-or-mixed-read" : "roundtrip-mismatch", m);
        } else if (saved.fitted) {
          PArg p1{&saved, &saved, {}}, p2{&saved, &got, {}};
          int r1 = sim_guard(do_predict, &p1), r2 = sim_guard(do_predict, &p2);
          if (r1 == SIM_OK && r2 != SIM_OK) o.fail("prediction-differs", "prediction through the read-back model aborts");
          else if (r1 == SIM_OK) {
            // "predicts the same" up to what the property's own number tolerance (1e-15*max(1,|v|) per stored number) implies:
            // first-order bound sum_k |d pred / d v_k| * tol_k, by finite differences with step 1e-9*max(1,|v_k|)
            bool ok = p1.out.size() == p2.out.size() && (p1.out.empty() || p1.out[0].size() == p2.out[0].size());
            if (ok) {
              Mat bound(p1.out.size(), std::vector<double>(p1.out.empty() ? 0 : p1.out[0].size(), 0.0));
              double pmax = 1.0; for (auto &r : p1.out) for (double v : r) if (std::isfinite(v)) pmax = fmax(pmax, fabs(v));
              bool fd_ok = true;
              walk_model(saved, [&](double &v) {
                double old = v, hstep = 1e-9 * fmax(1.0, fabs(old));
                v = old + hstep;
                PArg pk{&saved, &saved, {}};
                if (sim_guard(do_predict, &pk) == SIM_OK && pk.out.size() == bound.size()) { for (size_t i = 0; i < bound.size(); i++) for (size_t j = 0; j < bound[i].size(); j++) bound[i][j] += fabs(pk.out[i][j] - p1.out[i][j]); }
                else fd_ok = false;
                v = old;
              });
              if (fd_ok) for (size_t i = 0; ok && i < p1.out.size(); i++) for (size_t j = 0; j < p1.out[i].size(); j++) {
                double tol = 2e-6 * bound[i][j] + 1e-12 * pmax;
                if (p1.out[i][j] != p1.out[i][j] || bound[i][j] != bound[i][j] || std::isinf(bound[i][j])) { o.counters["skipped.prediction_not_finite_in_saved_model"]++; continue; }  // e.g. a null component: the saved model itself predicts NaN there
                if (!(fabs(p1.out[i][j] - p2.out[i][j]) <= tol)) { ok = false; char m[300]; snprintf(m, sizeof m, "%s: read-back model predicts %.15g where the saved one predicts %.15g (allowed %.3g)", kind_name[saved.kind], p2.out[i][j], p1.out[i][j], tol); o.fail("prediction-differs", m); break; }
              }
            } else o.fail("prediction-differs", std::string(kind_name[saved.kind]) + ": prediction through the read-back model has another shape");
            o.counters["probe.prediction_compared"]++;
          }
        }
        if (ref[path].writes >= 2) o.counters["probe.read_after_2plus_writes"]++;
        o.counters["probe.reads_checked"]++;
        del_model(got);
        if (o.violation) break;
      }
      opi++;
    }
    sim_result sr; sim_end_run(&sr);
    fill_outcome_from_sim(o, sr, 0);
    const simvfs_stats *vs = simvfs_get_stats();
    o.counters["vfs.calls"] += vs->calls_total; o.counters["vfs.writes"] += vs->writes; o.counters["vfs.syncs"] += vs->syncs;
    for (auto &m : pool) del_model(m);
    rm_rf(scratch);
    h.str(o.cls);
    o.hash = h.h;
    char cfg[200]; snprintf(cfg, sizeof cfg, "ops=%s paths=%d fault=%s", p.get("ops").c_str(), npaths, p.get("fault", "none").c_str());
    o.cfg = cfg;
    o.sched_sig = std::hash<std::string>()(p.get("models"));
    return o;
  }

  std::vector<Plan> shrink(const Plan &p) override {
    std::vector<Plan> out;
    std::vector<std::string> ops = p.list("ops");
    int fop = -1, fkind = 0, ftorn = 0; double ffrac = 0;
    if (p.has("fault")) sscanf(p.get("fault").c_str(), "%d:%d:%lf:%d", &fop, &fkind, &ffrac, &ftorn);
    if (p.has("fault")) { Plan q = p; q.erase("fault"); out.push_back(q); }
    for (size_t i = 0; i < ops.size(); i++) {
      if ((int)i == fop) continue;
      std::vector<std::string> k; for (size_t j = 0; j < ops.size(); j++) if (j != i) k.push_back(ops[j]);
      Plan q = p; q.setlist("ops", k);
      if (fop > (int)i) { char b[96]; snprintf(b, sizeof b, "%d:%d:%.6f:%d", fop - 1, fkind, ffrac, ftorn); q.set("fault", b); }
      out.push_back(q);
    }
    if (p.geti("paths") > 1) { Plan q = p; q.seti("paths", 1); std::vector<std::string> k; for (auto o2 : ops) { if (o2[0] == 'W') { int a, b; sscanf(o2.c_str(), "W:%d:%d", &a, &b); o2 = "W:0:" + std::to_string(b); } else o2 = "R:0"; k.push_back(o2); } q.setlist("ops", k); out.push_back(q); }
    // simpler models: synthetic -> keep, fitted -> synthetic
    std::vector<std::string> ms = p.list("models");
    for (size_t i = 0; i < ms.size(); i++) { int a[9]; if (sscanf(ms[i].c_str(), "%d:%d:%d:%d:%d:%d:%d:%d:%d", a, a + 1, a + 2, a + 3, a + 4, a + 5, a + 6, a + 7, a + 8) == 9 && a[0] != KIND_PCA) { std::vector<std::string> m2 = ms; char b[128]; snprintf(b, sizeof b, "0:%d:%d:%d:%d:%d:%d:%d:%d", a[1], a[2], a[3], a[4], a[5], a[6], a[7], a[8]); m2[i] = b; Plan q = p; q.setlist("models", m2); out.push_back(q); } }
    return out;
  }
};

int main(int argc, char **argv) { HIo h; return harness_main(h, argc, argv); }
