// Shared harness plumbing: plans (key=value text), outcomes, the seed loop, in-process re-run gate,
// greedy class-preserving minimisation, result lines for tools/driver.py.
#pragma once
#include <stdint.h>
#include <stdio.h>
#include <stdlib.h>
#include <string.h>
#include <string>
#include <vector>
#include <map>
#include <set>
#include <functional>
#include <sstream>
#include <chrono>
#include <unistd.h>
#include "../sim/sim.h"
#include "../sim/prng.hpp"

// ---------------------------------------------------------------------------------------------
// Plan: ordered key=value lines.  Everything a run does is a pure function of its plan.
struct Plan {
  std::vector<std::pair<std::string, std::string>> kv;
  void set(const std::string &k, const std::string &v) {
    for (auto &p : kv) if (p.first == k) { p.second = v; return; }
    kv.emplace_back(k, v);
  }
  void seti(const std::string &k, long long v) { set(k, std::to_string(v)); }
  void setu(const std::string &k, unsigned long long v) { set(k, std::to_string(v)); }
  void setd(const std::string &k, double v) { char b[64]; snprintf(b, sizeof b, "%.17g", v); set(k, b); }
  bool has(const std::string &k) const { for (auto &p : kv) if (p.first == k) return true; return false; }
  std::string get(const std::string &k, const std::string &d = "") const { for (auto &p : kv) if (p.first == k) return p.second; return d; }
  long long geti(const std::string &k, long long d = 0) const { return has(k) ? atoll(get(k).c_str()) : d; }
  unsigned long long getu(const std::string &k, unsigned long long d = 0) const { return has(k) ? strtoull(get(k).c_str(), nullptr, 10) : d; }
  double getd(const std::string &k, double d = 0) const { return has(k) ? strtod(get(k).c_str(), nullptr) : d; }
  void erase(const std::string &k) { for (size_t i = 0; i < kv.size(); i++) if (kv[i].first == k) { kv.erase(kv.begin() + i); return; } }
  // list helpers: value is space separated
  std::vector<std::string> list(const std::string &k) const {
    std::vector<std::string> out; std::istringstream is(get(k)); std::string t; while (is >> t) out.push_back(t); return out;
  }
  void setlist(const std::string &k, const std::vector<std::string> &v) { std::string s; for (size_t i = 0; i < v.size(); i++) { if (i) s += ' '; s += v[i]; } set(k, s); }
  std::string text() const { std::string s; for (auto &p : kv) { s += p.first; s += '='; s += p.second; s += '\n'; } return s; }
  static Plan parse(const std::string &t) {
    Plan p; std::istringstream is(t); std::string line;
    while (std::getline(is, line)) { if (line.empty() || line[0] == '#') continue; size_t e = line.find('='); if (e == std::string::npos) continue; p.kv.emplace_back(line.substr(0, e), line.substr(e + 1)); }
    return p;
  }
};

// switch list <-> text ("tid:tstep:kind:next ...")
inline std::string switches_text(const sim_switch *s, size_t n) {
  std::string out; char b[96];
  for (size_t i = 0; i < n; i++) { snprintf(b, sizeof b, "%s%d:%llu:%d:%d", i ? " " : "", s[i].tid, (unsigned long long)s[i].tstep, s[i].kind, s[i].next); out += b; }
  return out;
}
inline std::vector<sim_switch> switches_parse(const std::string &t) {
  std::vector<sim_switch> v; std::istringstream is(t); std::string tok;
  while (is >> tok) { sim_switch s; unsigned long long st; if (sscanf(tok.c_str(), "%d:%llu:%d:%d", &s.tid, &st, &s.kind, &s.next) == 4) { s.tstep = st; v.push_back(s); } }
  return v;
}

// ---------------------------------------------------------------------------------------------
struct Hasher {
  uint64_t h = 0xcbf29ce484222325ULL;
  void u64(uint64_t v) { h = (h ^ v) * 0x100000001b3ULL; h ^= h >> 29; }
  void dbl(double d) { uint64_t v; memcpy(&v, &d, 8); if (d != d) v = 0x7ff8000000000000ULL; /* all NaNs alike */ u64(v); }
  void str(const std::string &s) { for (unsigned char c : s) u64(c); u64(0xff); }
};

struct Outcome {
  bool violation = false;
  bool infra = false;            // simulator/harness problem, never a property verdict
  std::string cls;               // violation class (minimisation must preserve it)
  std::string msg;
  uint64_t hash = 0;             // history hash (scheduler events + outputs)
  std::string cfg;               // configuration tuple, human readable
  uint64_t sched_sig = 0;
  uint64_t steps = 0, switches = 0, threads = 0;
  int max_live = 1;
  bool nontrivial = false;
  std::string strategy = "S0";
  std::string switch_list;       // explicit switch list of the (last) simulated run, filled on violation
  std::map<std::string, uint64_t> counters;  // faults fired, probes, ... (prefix "fault.", "probe.", ...)
  void fail(const std::string &c, const std::string &m) { if (!violation) { violation = true; cls = c; msg = m; } }
};

inline std::string jesc(const std::string &s) {
  std::string o;
  for (unsigned char c : s) {
    if (c == '"' || c == '\\') { o += '\\'; o += (char)c; }
    else if (c == '\n') o += "\\n";
    else if (c < 0x20) { char b[8]; snprintf(b, sizeof b, "\\u%04x", c); o += b; }
    else o += (char)c;
  }
  return o;
}

// ---------------------------------------------------------------------------------------------
struct Harness {
  std::string prop;      // property id this process serves
  std::string tier = "quick";
  virtual ~Harness() {}
  virtual const char *engine() const = 0;
  virtual Plan generate(uint64_t seed) = 0;
  virtual Outcome execute(const Plan &p) = 0;
  // candidate simplifications of a failing plan, most aggressive first
  virtual std::vector<Plan> shrink(const Plan &p) { (void)p; return {}; }
  virtual int minimise_budget(const std::string &cls) { (void)cls; return tier == "quick" ? 120 : 400; }
};

struct Summary {
  uint64_t runs = 0, violations = 0, nondet = 0, infra = 0, steps_total = 0, steps_max = 0, switches_total = 0, threads_total = 0;
  std::map<std::string, uint64_t> counters, strategies, violation_classes;
  std::vector<std::string> samples;  // JSON objects
};

inline double now_s() { return std::chrono::duration<double>(std::chrono::steady_clock::now().time_since_epoch()).count(); }

inline Plan minimise(Harness &h, Plan p, const std::string &cls, int budget, int *used) {
  int n = 0; bool improved = true;
  while (improved && n < budget) {
    improved = false;
    std::vector<Plan> cands = h.shrink(p);
    for (auto &c : cands) {
      if (n >= budget) break;
      n++;
      Outcome o = h.execute(c);
      if (o.violation && o.cls == cls) { p = c; improved = true; break; }
    }
  }
  if (used) *used = n;
  return p;
}

inline std::string outcome_json(const Outcome &o, uint64_t seed, const Plan *plan) {
  std::ostringstream s;
  s << "{\"seed\":" << seed << ",\"strategy\":\"" << o.strategy << "\",\"cfg\":\"" << jesc(o.cfg) << "\",\"steps\":" << o.steps
    << ",\"switches\":" << o.switches << ",\"threads\":" << o.threads << ",\"outcome\":\"" << (o.violation ? "violation" : "ok") << "\"";
  if (o.violation) s << ",\"class\":\"" << jesc(o.cls) << "\",\"message\":\"" << jesc(o.msg) << "\"";
  char hb[32]; snprintf(hb, sizeof hb, "%016llx", (unsigned long long)o.hash);
  s << ",\"history_hash\":\"" << hb << "\"";
  if (plan) {
    s << ",\"plan\":[";
    for (size_t i = 0; i < plan->kv.size(); i++) { std::string v = plan->kv[i].second; if (v.size() > 400) v = v.substr(0, 400) + "..."; s << (i ? "," : "") << "\"" << jesc(plan->kv[i].first + "=" + v) << "\""; }
    s << "]";
  }
  s << "}";
  return s.str();
}

inline void blas_single_thread(char **argv) { if (!getenv("OPENBLAS_NUM_THREADS")) { setenv("OPENBLAS_NUM_THREADS", "1", 1); execv("/proc/self/exe", argv); } }
inline int harness_main(Harness &h, int argc, char **argv) {
  // the BLAS/LAPACK archives of this image are OpenBLAS (pthread build): its worker pool must not exist inside a simulated process.
  // OpenBLAS reads OPENBLAS_NUM_THREADS in a constructor, i.e. before main, so the process re-executes itself once with it set.
  blas_single_thread(argv);

  std::string mode = argc > 1 ? argv[1] : "";
  std::map<std::string, std::string> a;
  for (int i = 2; i + 1 < argc; i += 2) a[argv[i]] = argv[i + 1];
  h.prop = a.count("--prop") ? a["--prop"] : "";
  h.tier = a.count("--tier") ? a["--tier"] : "quick";
  std::string replay_dir = a.count("--replay-dir") ? a["--replay-dir"] : "replays";

  if (mode == "replay") {
    FILE *f = fopen(a["--plan"].c_str(), "r");
    if (!f) { fprintf(stderr, "cannot open plan\n"); return 2; }
    std::string t; char buf[65536]; size_t n; while ((n = fread(buf, 1, sizeof buf, f)) > 0) t.append(buf, n); fclose(f);
    Plan p = Plan::parse(t);
    if (h.prop.empty()) h.prop = p.get("property");
    Outcome o = h.execute(p);
    if (o.infra) { printf("REPLAY-INFRA %s\n", o.msg.c_str()); return 2; }
    if (o.violation) { printf("REPLAY-VIOLATION class=%s hash=%016llx msg=%s\n", o.cls.c_str(), (unsigned long long)o.hash, o.msg.c_str()); return 1; }
    printf("REPLAY-CLEAN hash=%016llx\n", (unsigned long long)o.hash);
    return 0;
  }
  if (mode == "shrink") {  // print shrink candidates of a plan, separated by "--" lines (driver-side minimisation of crashing runs)
    FILE *f = fopen(a["--plan"].c_str(), "r");
    if (!f) return 2;
    std::string t; char buf[65536]; size_t n; while ((n = fread(buf, 1, sizeof buf, f)) > 0) t.append(buf, n); fclose(f);
    Plan p = Plan::parse(t);
    if (h.prop.empty()) h.prop = p.get("property");
    for (auto &c : h.shrink(p)) { fputs(c.text().c_str(), stdout); fputs("--\n", stdout); }
    return 0;
  }
  if (mode == "genplan") {  // print the plan of one seed (used by the driver for crashing seeds)
    Plan p = h.generate(strtoull(a["--seed"].c_str(), nullptr, 10));
    fputs(p.text().c_str(), stdout);
    return 0;
  }
  if (mode != "run") { fprintf(stderr, "usage: %s run|replay|genplan ...\n", argv[0]); return 2; }

  uint64_t from = strtoull(a["--from"].c_str(), nullptr, 10);
  uint64_t count = a.count("--count") ? strtoull(a["--count"].c_str(), nullptr, 10) : UINT64_MAX;
  uint64_t stride = a.count("--stride") ? strtoull(a["--stride"].c_str(), nullptr, 10) : 1;
  uint64_t offset = a.count("--offset") ? strtoull(a["--offset"].c_str(), nullptr, 10) : 0;
  double budget = a.count("--budget-s") ? atof(a["--budget-s"].c_str()) : 1e9;
  bool lines = a.count("--lines") ? atoi(a["--lines"].c_str()) != 0 : true;
  FILE *out = fopen(a["--out"].c_str(), "w");
  if (!out) { fprintf(stderr, "cannot open --out\n"); return 2; }
  double t0 = now_s();
  Summary S;
  std::map<std::string, int> minimised_per_class;
  uint64_t recycle_next = 0; bool recycle = false;
  for (uint64_t i = offset; i < count; i += stride) {
    if (now_s() - t0 > budget) break;
    // a worker whose resident set has grown past 1.5 GB (sanitizer quarantine, memory the library leaks on aborted calls) ends here and asks
    // the driver for a successor that continues at this index: long phases must not run the machine out of memory
    if (((i - offset) / stride) % 128 == 127) { long pages = 0, rss = 0; FILE *sf = fopen("/proc/self/statm", "r"); if (sf) { if (fscanf(sf, "%ld %ld", &pages, &rss) != 2) rss = 0; fclose(sf); } if ((double)rss * (double)sysconf(_SC_PAGESIZE) > 1.5e9) { recycle = true; recycle_next = i; break; } }
    uint64_t seed = from + i;
    fprintf(out, "B %llu\n", (unsigned long long)seed); fflush(out);
    Plan p = h.generate(seed);
    p.set("property", h.prop); p.setu("seed", seed);
    Outcome o = h.execute(p);
    S.runs++; S.steps_total += o.steps; if (o.steps > S.steps_max) S.steps_max = o.steps; S.switches_total += o.switches; S.threads_total += o.threads;
    S.strategies[o.strategy]++;
    for (auto &c : o.counters) { if (c.first.compare(0, 4, "max.") == 0) { if (c.second > S.counters[c.first]) S.counters[c.first] = c.second; } else S.counters[c.first] += c.second; }
    if (o.infra) { S.infra++; fprintf(out, "I %llu %s\n", (unsigned long long)seed, jesc(o.msg).c_str()); fflush(out); continue; }
    if (lines) fprintf(out, "R %llu %d %016llx %016llx %016llx %d\n", (unsigned long long)seed, o.violation ? 1 : 0, (unsigned long long)o.hash,
            (unsigned long long)std::hash<std::string>()(o.cfg), (unsigned long long)o.sched_sig, o.nontrivial ? 1 : 0);
    if (S.samples.size() < 3 && (o.nontrivial || i + 3 * stride >= count) ) S.samples.push_back(outcome_json(o, seed, &p));
    if (o.violation) {
      S.violations++; S.violation_classes[o.cls]++;
      // gate (a): same plan again in this process must give the same history
      Outcome o2 = h.execute(p);
      // the violation class must reproduce; a differing history hash alone (state kept by the library across calls in this
      // process is itself a way to break determinism properties) is recorded but does not discard the finding
      if (o2.violation && o2.cls == o.cls && o2.hash != o.hash) { fprintf(out, "H %llu %s first=%016llx second=%016llx\n", (unsigned long long)seed, jesc(o.cls).c_str(), (unsigned long long)o.hash, (unsigned long long)o2.hash); fflush(out); }
      if (!o2.violation || o2.cls != o.cls) {
        // Not reproduced by executing the same plan again in THIS process.  That is what a harness bug looks like, but also what
        // a library defect looks like whose trigger is consumed by the first execution (lazily initialised shared state, a cache):
        // the plan is handed to the driver un-minimised; its replay in a fresh process decides (reproduces -> violation,
        // does not -> simulator fault, exit 2).
        fprintf(out, "U %llu %s first=%016llx second=%016llx\n", (unsigned long long)seed, jesc(o.cls).c_str(), (unsigned long long)o.hash, (unsigned long long)o2.hash);
        if (minimised_per_class[o.cls + "/unstable"]++ < 2) {
          Plan m = p; m.set("expect.class", o.cls); m.set("expect.message", o.msg); m.set("expect.unstable_in_process", "1");
          char path[512]; snprintf(path, sizeof path, "%s/%s-%llu.plan", replay_dir.c_str(), h.prop.c_str(), (unsigned long long)seed);
          FILE *pf = fopen(path, "w"); if (pf) { fputs(m.text().c_str(), pf); fclose(pf); }
          fprintf(out, "V %llu %s %s %s\n", (unsigned long long)seed, path, jesc(o.cls).c_str(), jesc(o.msg).c_str());
        }
        fflush(out);
        continue;
      }
      if (minimised_per_class[o.cls]++ < 2) {
        int used = 0;
        // make the schedule explicit (switch list) so that it can be minimised and replayed without a PRNG
        if (!p.has("sched.switches") && !o.switch_list.empty()) {
          Plan q = p; q.set("sched.switches", o.switch_list);
          Outcome oq = h.execute(q);
          if (oq.violation && oq.cls == o.cls) p = q;
        }
        Plan m = minimise(h, p, o.cls, h.minimise_budget(o.cls), &used);
        Outcome om = h.execute(m);
        if (!(om.violation && om.cls == o.cls)) { m = p; om = o; }
        m.set("expect.class", om.cls); m.set("expect.message", om.msg);
        char hb[32]; snprintf(hb, sizeof hb, "%016llx", (unsigned long long)om.hash); m.set("expect.history_hash", hb);
        m.seti("minimise.reruns", used);
        char path[512]; snprintf(path, sizeof path, "%s/%s-%llu.plan", replay_dir.c_str(), h.prop.c_str(), (unsigned long long)seed);
        FILE *pf = fopen(path, "w");
        if (pf) { fputs(m.text().c_str(), pf); fclose(pf); }
        fprintf(out, "V %llu %s %s %s\n", (unsigned long long)seed, path, jesc(om.cls).c_str(), jesc(om.msg).c_str());
        fflush(out);
      }
    }
  }
  // summary
  std::ostringstream s;
  s << "{\"runs\":" << S.runs << ",\"violations\":" << S.violations << ",\"nondet\":" << S.nondet << ",\"infra\":" << S.infra
    << ",\"steps_total\":" << S.steps_total << ",\"steps_max\":" << S.steps_max << ",\"switches_total\":" << S.switches_total
    << ",\"threads_total\":" << S.threads_total << ",\"wall_s\":" << (now_s() - t0) << ",\"variant\":\"" << sim_variant() << "\"";
  auto dump = [&](const char *name, const std::map<std::string, uint64_t> &m) {
    s << ",\"" << name << "\":{"; bool first = true;
    for (auto &c : m) { s << (first ? "" : ",") << "\"" << jesc(c.first) << "\":" << c.second; first = false; }
    s << "}";
  };
  dump("counters", S.counters); dump("strategies", S.strategies); dump("violation_classes", S.violation_classes);
  s << ",\"samples\":["; for (size_t i = 0; i < S.samples.size(); i++) s << (i ? "," : "") << S.samples[i]; s << "]}";
  if (recycle) fprintf(out, "C %llu\n", (unsigned long long)recycle_next);
  fprintf(out, "S %s\n", s.str().c_str());
  fclose(out);
  if (recycle) return 75;
  return 0;
}

// ---------------------------------------------------------------------------------------------
// helpers shared by harnesses
inline const char *strategy_name(int s) { static const char *n[] = {"S0", "S1", "S2", "S3", "S4", "replay"}; return n[s < 0 || s > 5 ? 0 : s]; }

// draw the machine/schedule part of a plan (swarm style)
inline void gen_machine(Plan &p, Prng &mr, Prng &sr, bool allow_preempt, int max_nproc) {
  static const double ps[] = {1e-4, 5e-4, 2e-3, 1e-2};
  int strat;
  uint64_t r = sr.below(100);
  if (!allow_preempt) strat = r < 40 ? 0 : (r < 80 ? 1 : 2);
  else strat = r < 15 ? 0 : r < 35 ? 1 : r < 65 ? 2 : r < 85 ? 3 : 4;
  p.seti("sched.strategy", strat);
  p.setu("sched.seed", sr.next() >> 1);
  p.setd("sched.p", ps[sr.below(4)]);
  p.seti("sched.pct_depth", 2 + (int)sr.below(2));
  static const int procs[] = {1, 2, 3, 4, 5, 7, 8, 16, 24};
  int np = procs[mr.below(9)];
  if (np > max_nproc) np = 1 + (int)mr.below(max_nproc);
  p.seti("machine.nproc", np);
  p.seti("machine.clock0", 1500000000 + (long long)mr.below(400000000));
  p.seti("machine.clock_step", 1 + (int)mr.below(7));
  p.setu("machine.garbage_seed", 1 + (mr.next() >> 8));
  p.seti("machine.realloc_move_pct", (int)mr.below(3) * 50);
}

inline void cfg_from_plan(const Plan &p, sim_cfg &c, std::vector<sim_switch> &replay_store) {
  sim_cfg_default(&c);
  c.strategy = (int)p.geti("sched.strategy", 0);
  c.sched_seed = p.getu("sched.seed", 1);
  c.preempt_p = p.getd("sched.p", 1e-3);
  c.pct_depth = (int)p.geti("sched.pct_depth", 2);
  c.pct_horizon = p.getu("sched.pct_horizon", 100000);
  c.nproc = (int)p.geti("machine.nproc", 0);
  c.clock0 = p.geti("machine.clock0", 1790000000);
  c.clock_step = (int)p.geti("machine.clock_step", 1);
  c.garbage_seed = p.getu("machine.garbage_seed", 0);
  c.realloc_move_pct = (int)p.geti("machine.realloc_move_pct", 0);
  c.step_limit = p.getu("machine.step_limit", 0);
  c.detect_races = (int)p.geti("sched.detect", 1);
  if (p.has("sched.switches")) {
    replay_store = switches_parse(p.get("sched.switches"));
    c.strategy = SIM_REPLAY; c.replay = replay_store.data(); c.n_replay = replay_store.size();
  }
}

// generic shrink candidates for an explicit switch list: drop halves, quarters, single entries
inline void shrink_switches(const Plan &p, std::vector<Plan> &out) {
  if (!p.has("sched.switches")) return;
  std::vector<std::string> sw = p.list("sched.switches");
  size_t n = sw.size();
  if (!n) return;
  { Plan q = p; q.set("sched.switches", ""); out.push_back(q); }
  for (size_t chunk = n / 2; chunk >= 1; chunk /= 2) {
    for (size_t s = 0; s < n; s += chunk) {
      std::vector<std::string> keep;
      for (size_t i = 0; i < n; i++) if (i < s || i >= s + chunk) keep.push_back(sw[i]);
      Plan q = p; q.setlist("sched.switches", keep); out.push_back(q);
      if (out.size() > 64) return;
    }
    if (chunk == 1) break;
  }
}
