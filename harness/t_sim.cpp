// Self-test of the simulator itself on a toy library (sim/selftest/toy.c): scheduler determinism and replay, race detection
// (true positive, no false positive under a modelled mutex, none for disjoint fork-join slices), step ceiling, abort capture
// from a worker thread, allocation-failure plan, processor-count and clock seams.  Exit 0 = all passed.
#include <stdio.h>
#include <string.h>
#include <set>
#include <vector>
#include "../sim/sim.h"
extern "C" { long toy_run_counter(int, int, int); long toy_run_slices(int); void toy_spin_forever(void); void toy_abort_in_worker(void); int toy_alloc_chain(int); long toy_nproc(void); long toy_time(void); }
static int fails = 0;
#define CHECK(c, ...) do { if (!(c)) { fails++; printf("FAIL %s:%d: ", __FILE__, __LINE__); printf(__VA_ARGS__); printf("\n"); } } while (0)
struct Arg { int threads, n, locked; long out; };
static void f_counter(void *a_) { Arg *a = (Arg *)a_; a->out = toy_run_counter(a->threads, a->n, a->locked); }
static void f_slices(void *a_) { Arg *a = (Arg *)a_; a->out = toy_run_slices(a->threads); }
static void f_spin(void *) { toy_spin_forever(); }
static void f_abort(void *) { toy_abort_in_worker(); }
static void f_alloc(void *a_) { Arg *a = (Arg *)a_; a->out = toy_alloc_chain(a->n); }
int main() {
  sim_cfg c; sim_result r; Arg a;
  // 1. racy counter: race reported under every strategy; lost updates under preemption; deterministic per seed
  std::set<long> outcomes;
  for (int strat = 0; strat <= 4; strat++) for (uint64_t seed = 1; seed <= 20; seed++) {
    sim_cfg_default(&c); c.strategy = strat; c.sched_seed = seed; c.preempt_p = 0.05; c.pct_horizon = 400;
    long o1, o2; uint64_t h1, h2;
    sim_begin_run(&c); a = {3, 30, 0, 0}; sim_guard(f_counter, &a); sim_end_run(&r); o1 = a.out; h1 = r.hist_hash;
    CHECK(r.races > 0, "racy counter: no race reported (strategy %d seed %llu)", strat, (unsigned long long)seed);
    const sim_race *rs; size_t nr = sim_races(&rs);
    CHECK(nr > 0 && strstr(rs[0].object, "toy_counter"), "race object not symbolised as toy_counter: %s", nr ? rs[0].object : "-");
    sim_begin_run(&c); a = {3, 30, 0, 0}; sim_guard(f_counter, &a); sim_end_run(&r); o2 = a.out; h2 = r.hist_hash;
    CHECK(o1 == o2 && h1 == h2, "same seed, different execution (strategy %d seed %llu): %ld/%ld", strat, (unsigned long long)seed, o1, o2);
    outcomes.insert(o1);
    if (strat == 0) CHECK(o1 == 90, "S0 must serialise the workers: got %ld", o1);
  }
  CHECK(outcomes.size() > 3, "preemptive strategies never produced a lost update (%zu distinct results)", outcomes.size());
  // 2. replay of a recorded switch list reproduces result and history
  {
    sim_cfg_default(&c); c.strategy = SIM_S2_RANDOM; c.sched_seed = 77; c.preempt_p = 0.05;
    sim_begin_run(&c); a = {3, 30, 0, 0}; sim_guard(f_counter, &a); sim_end_run(&r);
    long o1 = a.out; uint64_t h1 = r.hist_hash; const sim_switch *sw; size_t n = sim_switches(&sw); std::vector<sim_switch> rec(sw, sw + n);
    sim_cfg_default(&c); c.strategy = SIM_REPLAY; c.replay = rec.data(); c.n_replay = rec.size();
    sim_begin_run(&c); a = {3, 30, 0, 0}; sim_guard(f_counter, &a); sim_end_run(&r);
    CHECK(a.out == o1 && r.hist_hash == h1 && n > 0, "replay differs: %ld vs %ld, %zu switches", a.out, o1, n);
  }
  // 3. modelled mutex: no race, exact count under every strategy
  for (int strat = 0; strat <= 4; strat++) for (uint64_t seed = 1; seed <= 10; seed++) {
    sim_cfg_default(&c); c.strategy = strat; c.sched_seed = seed; c.preempt_p = 0.05; c.pct_horizon = 400;
    sim_begin_run(&c); a = {3, 20, 1, 0}; int rc = sim_guard(f_counter, &a); sim_end_run(&r);
    CHECK(rc == SIM_OK && r.races == 0 && a.out == 60, "locked counter: rc=%d races=%llu out=%ld (strategy %d)", rc, (unsigned long long)r.races, a.out, strat);
  }
  // 4. disjoint fork-join slices: no race, many threads
  for (int th : {1, 2, 7, 24, 60}) { sim_cfg_default(&c); c.strategy = SIM_S1_PERMUTED; c.sched_seed = th; sim_begin_run(&c); a = {th, 0, 0, 0}; sim_guard(f_slices, &a); sim_end_run(&r);
    long want = 0; for (int i = 0; i < th; i++) want += 100 + i; CHECK(r.races == 0 && a.out == want && (int)r.threads == th, "slices: races=%llu out=%ld want=%ld threads=%llu", (unsigned long long)r.races, a.out, want, (unsigned long long)r.threads); }
  // 5. step ceiling unwinds a runaway call, the simulator stays usable
  { sim_cfg_default(&c); c.step_limit = 100000; sim_begin_run(&c); int rc = sim_guard(f_spin, nullptr); sim_end_run(&r); CHECK(rc == SIM_CEILING && r.steps >= 100000, "ceiling: rc=%d steps=%llu", rc, (unsigned long long)r.steps);
    sim_cfg_default(&c); sim_begin_run(&c); a = {2, 5, 1, 0}; rc = sim_guard(f_counter, &a); sim_end_run(&r); CHECK(rc == SIM_OK && a.out == 10, "run after ceiling: rc=%d out=%ld", rc, a.out); }
  // 6. abort() inside a worker is captured and every thread is reaped
  { sim_cfg_default(&c); sim_begin_run(&c); int rc = sim_guard(f_abort, nullptr); sim_end_run(&r); CHECK(rc == SIM_ABORTED, "abort in worker: rc=%d", rc);
    sim_cfg_default(&c); sim_begin_run(&c); a = {4, 0, 0, 0}; rc = sim_guard(f_slices, &a); sim_end_run(&r); CHECK(rc == SIM_OK, "run after abort: rc=%d", rc); }
  // 7. allocation failure plan: exactly the k-th allocation fails
  { sim_cfg_default(&c); sim_begin_run(&c); sim_alloc_fail_at(3); a = {0, 10, 0, 0}; sim_guard(f_alloc, &a); CHECK(a.out == 9 && sim_alloc_failures() == 1, "alloc plan: %ld of 10 succeeded, %llu failures", a.out, (unsigned long long)sim_alloc_failures()); sim_end_run(&r); }
  // 8. machine seams
  { sim_cfg_default(&c); c.nproc = 5; c.clock0 = 1234; c.clock_step = 3; sim_begin_run(&c); long np = toy_nproc(), t1 = toy_time(), t2 = toy_time(); sim_end_run(&r); CHECK(np == 5 && t1 == 1234 && t2 == 1237 && r.clock_reads == 2, "seams: nproc=%ld time=%ld,%ld", np, t1, t2); }
  printf(fails ? "SIM-SELFTEST: %d check(s) FAILED\n" : "SIM-SELFTEST: all passed\n", fails);
  return fails ? 1 : 0;
}
