// SQLite VFS shim: the simulated disk for C16.  Registered as the default VFS before the library
// opens anything; passes through to the real "unix" VFS (files live in a per-run scratch directory
// on tmpfs) while counting every file-level call of the current operation and injecting the fault
// the plan attaches to that operation: an I/O error / disk-full / short write at the k-th call, or
// a kill (_exit) at the k-th call, optionally after writing only half of that call's buffer.
#include <sqlite3.h>
#include <stdint.h>
#include <stdio.h>
#include <stdlib.h>
#include <string.h>
#include <unistd.h>
#include <sys/types.h>
#include <sys/wait.h>
#include "vfs.h"

namespace {
sqlite3_vfs *g_real = nullptr;
sqlite3_vfs g_vfs;
sqlite3_io_methods g_io;

uint64_t g_calls = 0;
int g_kind = SIMVFS_NONE;
uint64_t g_at = 0;
int g_torn = 0;
simvfs_stats g_stats;

struct SimFile {
  sqlite3_file base;
  int is_main;
  sqlite3_file *real() { return (sqlite3_file *)(this + 1); }
};

enum { C_OPEN, C_DELETE, C_READ, C_WRITE, C_TRUNCATE, C_SYNC };

// returns 0 = proceed, otherwise the SQLite error code to return (kill does not return)
int fault_point(int call, sqlite3_file *rf, const void *buf, int amt, sqlite3_int64 off, bool main_open) {
  g_calls++;
  g_stats.calls_total++;
  switch (call) { case C_OPEN: g_stats.opens++; break; case C_DELETE: g_stats.deletes++; break; case C_READ: g_stats.reads++; break;
                  case C_WRITE: g_stats.writes++; break; case C_TRUNCATE: g_stats.truncates++; break; case C_SYNC: g_stats.syncs++; break; }
  if (g_kind == SIMVFS_NONE || g_calls != g_at) return 0;
  if (g_kind == SIMVFS_KILL) {
    if (call == C_WRITE && g_torn && rf && amt > 1) rf->pMethods->xWrite(rf, buf, amt / 2, off);
    _exit(SIMVFS_KILL_EXIT);
  }
  if (main_open) return 0;  // the library cannot survive a failed open of the database itself (not a C16 matter)
  g_stats.fired++;
  if (g_kind == SIMVFS_FULL) { if (call == C_WRITE) return SQLITE_FULL; }
  if (g_kind == SIMVFS_SHORT && call == C_WRITE && rf && amt > 1) { rf->pMethods->xWrite(rf, buf, amt / 2, off); return SQLITE_IOERR_WRITE; }
  switch (call) {
    case C_OPEN: return SQLITE_CANTOPEN;
    case C_DELETE: return SQLITE_IOERR_DELETE;
    case C_READ: return SQLITE_IOERR_READ;
    case C_WRITE: return SQLITE_IOERR_WRITE;
    case C_TRUNCATE: return SQLITE_IOERR_TRUNCATE;
    default: return SQLITE_IOERR_FSYNC;
  }
}

int xClose(sqlite3_file *f) { SimFile *s = (SimFile *)f; return s->real()->pMethods ? s->real()->pMethods->xClose(s->real()) : SQLITE_OK; }
int xRead(sqlite3_file *f, void *b, int n, sqlite3_int64 o) { SimFile *s = (SimFile *)f; int rc = fault_point(C_READ, s->real(), nullptr, n, o, false); if (rc) return rc; return s->real()->pMethods->xRead(s->real(), b, n, o); }
int xWrite(sqlite3_file *f, const void *b, int n, sqlite3_int64 o) { SimFile *s = (SimFile *)f; int rc = fault_point(C_WRITE, s->real(), b, n, o, false); if (rc) return rc; return s->real()->pMethods->xWrite(s->real(), b, n, o); }
int xTruncate(sqlite3_file *f, sqlite3_int64 n) { SimFile *s = (SimFile *)f; int rc = fault_point(C_TRUNCATE, s->real(), nullptr, 0, 0, false); if (rc) return rc; return s->real()->pMethods->xTruncate(s->real(), n); }
int xSync(sqlite3_file *f, int fl) { SimFile *s = (SimFile *)f; int rc = fault_point(C_SYNC, s->real(), nullptr, 0, 0, false); if (rc) return rc; return s->real()->pMethods->xSync(s->real(), fl); }
int xFileSize(sqlite3_file *f, sqlite3_int64 *n) { SimFile *s = (SimFile *)f; return s->real()->pMethods->xFileSize(s->real(), n); }
int xLock(sqlite3_file *f, int l) { SimFile *s = (SimFile *)f; return s->real()->pMethods->xLock(s->real(), l); }
int xUnlock(sqlite3_file *f, int l) { SimFile *s = (SimFile *)f; return s->real()->pMethods->xUnlock(s->real(), l); }
int xCheckReservedLock(sqlite3_file *f, int *r) { SimFile *s = (SimFile *)f; return s->real()->pMethods->xCheckReservedLock(s->real(), r); }
int xFileControl(sqlite3_file *f, int op, void *a) { SimFile *s = (SimFile *)f; return s->real()->pMethods->xFileControl(s->real(), op, a); }
int xSectorSize(sqlite3_file *f) { SimFile *s = (SimFile *)f; return s->real()->pMethods->xSectorSize(s->real()); }
int xDeviceCharacteristics(sqlite3_file *f) { SimFile *s = (SimFile *)f; return s->real()->pMethods->xDeviceCharacteristics(s->real()); }

int vOpen(sqlite3_vfs *, const char *name, sqlite3_file *f, int flags, int *outflags) {
  SimFile *s = (SimFile *)f;
  s->base.pMethods = nullptr;
  s->is_main = (flags & SQLITE_OPEN_MAIN_DB) != 0;
  s->real()->pMethods = nullptr;
  int rc = fault_point(C_OPEN, nullptr, nullptr, 0, 0, s->is_main);
  if (rc) return rc;
  rc = g_real->xOpen(g_real, name, s->real(), flags, outflags);
  if (s->real()->pMethods) s->base.pMethods = &g_io;
  return rc;
}
int vDelete(sqlite3_vfs *, const char *name, int sync) { int rc = fault_point(C_DELETE, nullptr, nullptr, 0, 0, false); if (rc) return rc; return g_real->xDelete(g_real, name, sync); }
int vAccess(sqlite3_vfs *, const char *name, int flags, int *res) { return g_real->xAccess(g_real, name, flags, res); }
int vFullPathname(sqlite3_vfs *, const char *name, int n, char *out) { return g_real->xFullPathname(g_real, name, n, out); }
void *vDlOpen(sqlite3_vfs *, const char *n) { return g_real->xDlOpen(g_real, n); }
void vDlError(sqlite3_vfs *, int n, char *m) { g_real->xDlError(g_real, n, m); }
void (*vDlSym(sqlite3_vfs *, void *h, const char *s))(void) { return g_real->xDlSym(g_real, h, s); }
void vDlClose(sqlite3_vfs *, void *h) { g_real->xDlClose(g_real, h); }
int vRandomness(sqlite3_vfs *, int n, char *out) { memset(out, 0x5a, n); return n; }  // deterministic
int vSleep(sqlite3_vfs *, int us) { (void)us; return 0; }                           // never really sleep
int vCurrentTime(sqlite3_vfs *, double *t) { *t = 2460000.5; return SQLITE_OK; }
int vGetLastError(sqlite3_vfs *, int n, char *m) { return g_real->xGetLastError ? g_real->xGetLastError(g_real, n, m) : 0; }
}  // namespace

extern "C" {

void simvfs_install(void) {
  if (g_real) return;
  sqlite3_initialize();
  g_real = sqlite3_vfs_find("unix");
  if (!g_real) { fprintf(stderr, "SIM-INFRA-ERROR: no unix VFS\n"); _exit(2); }
  memset(&g_io, 0, sizeof g_io);
  g_io.iVersion = 1;
  g_io.xClose = xClose; g_io.xRead = xRead; g_io.xWrite = xWrite; g_io.xTruncate = xTruncate; g_io.xSync = xSync; g_io.xFileSize = xFileSize;
  g_io.xLock = xLock; g_io.xUnlock = xUnlock; g_io.xCheckReservedLock = xCheckReservedLock; g_io.xFileControl = xFileControl;
  g_io.xSectorSize = xSectorSize; g_io.xDeviceCharacteristics = xDeviceCharacteristics;
  memset(&g_vfs, 0, sizeof g_vfs);
  g_vfs.iVersion = 1;
  g_vfs.szOsFile = (int)sizeof(SimFile) + g_real->szOsFile;
  g_vfs.mxPathname = g_real->mxPathname;
  g_vfs.zName = "simvfs";
  g_vfs.xOpen = vOpen; g_vfs.xDelete = vDelete; g_vfs.xAccess = vAccess; g_vfs.xFullPathname = vFullPathname;
  g_vfs.xDlOpen = vDlOpen; g_vfs.xDlError = vDlError; g_vfs.xDlSym = vDlSym; g_vfs.xDlClose = vDlClose;
  g_vfs.xRandomness = vRandomness; g_vfs.xSleep = vSleep; g_vfs.xCurrentTime = vCurrentTime; g_vfs.xGetLastError = vGetLastError;
  sqlite3_vfs_register(&g_vfs, 1);
}

void simvfs_begin_op(int kind, uint64_t at_call, int torn) { g_calls = 0; g_kind = kind; g_at = at_call; g_torn = torn; }
uint64_t simvfs_calls(void) { return g_calls; }
void simvfs_end_op(void) { g_kind = SIMVFS_NONE; }
const simvfs_stats *simvfs_get_stats(void) { return &g_stats; }
void simvfs_reset_stats(void) { memset(&g_stats, 0, sizeof g_stats); }

// run fn(arg) in a forked child; returns: 0 child exited 0, SIMVFS_KILL_EXIT killed at the planned call,
// 1000+code other exit code, 2000+signal died by signal
int sim_fork_run(void (*fn)(void *), void *arg) {
  fflush(stdout); fflush(stderr);
  pid_t p = fork();
  if (p < 0) return -1;
  if (p == 0) { uint64_t f0 = g_stats.fired; fn(arg); _exit(g_stats.fired > f0 ? SIMVFS_FIRED_EXIT : 0); }
  int st = 0;
  while (waitpid(p, &st, 0) < 0) {}
  if (WIFEXITED(st)) { int c = WEXITSTATUS(st); return c == 0 ? 0 : (c == SIMVFS_KILL_EXIT || c == SIMVFS_FIRED_EXIT ? c : 1000 + c); }
  if (WIFSIGNALED(st)) return 2000 + WTERMSIG(st);
  return -1;
}
}
