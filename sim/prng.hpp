// xoshiro256** with purpose-split streams. One VERIF_SEED-derived run seed fixes everything;
// each purpose (workload / schedule / faults / machine / alloc) has its own stream so that adding
// a draw in one purpose never shifts another.
#pragma once
#include <stdint.h>

struct Prng {
  uint64_t s[4];
  static inline uint64_t rotl(uint64_t x, int k) { return (x << k) | (x >> (64 - k)); }
  static uint64_t splitmix(uint64_t &x) {
    uint64_t z = (x += 0x9e3779b97f4a7c15ULL);
    z = (z ^ (z >> 30)) * 0xbf58476d1ce4e5b9ULL;
    z = (z ^ (z >> 27)) * 0x94d049bb133111ebULL;
    return z ^ (z >> 31);
  }
  Prng() { seed(1, 0); }
  Prng(uint64_t sd, uint64_t purpose) { seed(sd, purpose); }
  void seed(uint64_t sd, uint64_t purpose) {
    // the start point of the splitmix sequence is itself a hash of (seed, purpose): with a start point linear in the seed, consecutive
    // seeds would share three of their four state words (shifted by one), and neighbouring seeds would draw correlated cases
    uint64_t a = sd ^ 0x6a09e667f3bcc909ULL, b = purpose + 0xbb67ae8584caa73bULL;
    uint64_t x = splitmix(a) ^ rotl(splitmix(b), 23);
    x = splitmix(x);
    for (int i = 0; i < 4; i++) s[i] = splitmix(x);
  }
  uint64_t next() {
    uint64_t r = rotl(s[1] * 5, 7) * 9, t = s[1] << 17;
    s[2] ^= s[0]; s[3] ^= s[1]; s[1] ^= s[2]; s[0] ^= s[3]; s[2] ^= t; s[3] = rotl(s[3], 45);
    return r;
  }
  // uniform in [0,n)
  uint64_t below(uint64_t n) { return n ? next() % n : 0; }
  // uniform integer in [lo,hi]
  int64_t range(int64_t lo, int64_t hi) { return lo + (int64_t)below((uint64_t)(hi - lo + 1)); }
  double unit() { return (next() >> 11) * (1.0 / 9007199254740992.0); }
  bool chance(double p) { return unit() < p; }
  double uniform(double lo, double hi) { return lo + (hi - lo) * unit(); }
  // standard normal (Box-Muller, one value per call; deterministic)
  double normal();
};

enum { PURPOSE_WORKLOAD = 1, PURPOSE_SCHEDULE = 2, PURPOSE_FAULTS = 3, PURPOSE_MACHINE = 4, PURPOSE_ALLOC = 5, PURPOSE_ORACLE = 6 };

#include <math.h>
inline double Prng::normal() {
  double u1 = unit(), u2 = unit();
  if (u1 < 1e-300) u1 = 1e-300;
  return sqrt(-2.0 * log(u1)) * cos(6.283185307179586 * u2);
}
