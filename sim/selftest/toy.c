/* Toy "library" for the simulator's own self-test: compiled exactly like the library under test (TSan instrumentation
 * without runtime, symbols redirected), so that the scheduler, the detector and the seams are exercised on known code. */
#include <pthread.h>
#include <stdlib.h>
#include <time.h>
#include <unistd.h>

long toy_counter;
long toy_slices[64];
pthread_mutex_t toy_lock = PTHREAD_MUTEX_INITIALIZER;

static void *inc_racy(void *a) { int n = *(int *)a; for (int i = 0; i < n; i++) { long v = toy_counter; v = v + 1; toy_counter = v; } return 0; }
static void *inc_locked(void *a) { int n = *(int *)a; for (int i = 0; i < n; i++) { pthread_mutex_lock(&toy_lock); toy_counter++; pthread_mutex_unlock(&toy_lock); } return 0; }
static void *fill_slice(void *a) { long k = (long)a; toy_slices[k] = 100 + k; return 0; }
static void *aborter(void *a) { (void)a; abort(); return 0; }

long toy_run_counter(int threads, int n, int locked) {
  pthread_t t[16];
  toy_counter = 0;
  for (int i = 0; i < threads; i++) pthread_create(&t[i], 0, locked ? inc_locked : inc_racy, &n);
  for (int i = 0; i < threads; i++) pthread_join(t[i], 0);
  return toy_counter;
}
long toy_run_slices(int threads) {
  pthread_t t[64]; long s = 0;
  for (long i = 0; i < threads; i++) pthread_create(&t[i], 0, fill_slice, (void *)i);
  for (int i = 0; i < threads; i++) pthread_join(t[i], 0);
  for (int i = 0; i < threads; i++) s += toy_slices[i];
  return s;
}
void toy_spin_forever(void) { volatile long x = 0; for (;;) x++; }
void toy_abort_in_worker(void) { pthread_t t; pthread_create(&t, 0, aborter, 0); pthread_join(t, 0); }
int toy_alloc_chain(int n) { int ok = 0; for (int i = 0; i < n; i++) { void *p = malloc(16 + i); if (p) { ok++; free(p); } } return ok; }
long toy_nproc(void) { return sysconf(_SC_NPROCESSORS_ONLN); }
long toy_time(void) { return (long)time(0); }
