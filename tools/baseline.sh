#!/bin/bash
# Stock build (guard off: no verification define, stock flags) and the stock test executables,
# run at most 8 at a time from the build's tests directory (ctest registers tests only in Debug builds).
set -u
REPO=${REPO:-/repo}
B=$(mktemp -d /dev/shm/lsci-baseline.XXXXXX)
trap 'rm -rf "$B"' EXIT
cmake -G Ninja -S "$REPO" -B "$B" -DCMAKE_BUILD_TYPE=RelWithDebInfo -DCMAKE_INSTALL_PREFIX="$B/inst" >"$B/cmake.log" 2>&1 || { cat "$B/cmake.log"; exit 2; }
cmake --build "$B" >"$B/build.log" 2>&1 || { tail -50 "$B/build.log"; exit 2; }
cd "$B/src/tests" || exit 2
fail=0
ls test* | grep -v '\.' | xargs -P 8 -I{} sh -c 'LD_LIBRARY_PATH=../ timeout 1800 ./{} > {}.log 2>&1; echo "{} rc=$?"' | sort | tee "$B/results.txt"
# testica aborts on the pinned tree as well and is not part of the 62 stable names
# several binaries seed their data from time() and compare with tight tolerances: a binary that fails under load is run again alone
for t in $(grep -v '^testica ' "$B/results.txt" | grep -v 'rc=0$' | cut -d' ' -f1); do
  ok=0
  for try in 1 2 3; do LD_LIBRARY_PATH=../ timeout 1800 ./$t > $t.log 2>&1 && { ok=1; break; }; done
  echo "$t re-run alone: $([ $ok = 1 ] && echo passes || echo FAILS)"
  [ $ok = 1 ] || fail=1
done
exit $fail
