// C09 — CPCA super scores are the PCA scores of the block-scaled concatenation; decided along the
// processor-count / schedule axis (CPCA multiplies 2..4-row operands through the MT kernels).
#include "lib.hpp"
// the documented NIPALS convergence criterion of PCA (pca.h at the pinned commit); deliberately NOT taken from the header of
// the tree under test: a tree that loosens the criterion must not loosen the oracle with it
#define DOC_PCA_CRITERION 1e-10
#include "linalg.hpp"
#include "nipals_tol.hpp"
#include <algorithm>

struct COut { Mat super_scores, super_weights; std::vector<Mat> block_scores, block_loadings; std::vector<double> total_expvar, scaling_factor; std::vector<std::vector<double>> block_expvar; Mat pred_super; };
struct CCall { const std::vector<Mat> *blocks; int scaling, npc; COut *o; bool extras; bool reuse = false; };

static void call_cpca(void *a_) {
  CCall &a = *(CCall *)a_;
  tensor *t; initTensor(&t);
  for (auto &b : *a.blocks) { matrix *x = to_matrix(b); TensorAppendMatrix(t, x); DelMatrix(&x); }
  CPCAMODEL *m; NewCPCAModel(&m);
  CPCA(t, a.scaling, (size_t)a.npc, m);
  COut &o = *a.o;
  o.super_scores = from_matrix(m->super_scores); o.super_weights = from_matrix(m->super_weights);
  for (size_t k = 0; k < m->block_scores->order; k++) o.block_scores.push_back(from_matrix(m->block_scores->m[k]));
  for (size_t k = 0; k < m->block_loadings->order; k++) o.block_loadings.push_back(from_matrix(m->block_loadings->m[k]));
  o.total_expvar = from_dvector(m->total_expvar); o.scaling_factor = from_dvector(m->scaling_factor);
  for (size_t k = 0; k < m->block_expvar->size; k++) o.block_expvar.push_back(from_dvector(m->block_expvar->d[k]));
  if (a.extras) {
    matrix *ps; initMatrix(&ps); tensor *pb; initTensor(&pb);
    if (a.reuse) { tensor *pb0; initTensor(&pb0); CPCAScorePredictor(t, m, a.npc > 1 ? (size_t)a.npc - 1 : 1, ps, pb0); DelTensor(&pb0); }   // the super-score output already holds an earlier, narrower result
    CPCAScorePredictor(t, m, (size_t)a.npc, ps, pb);
    o.pred_super = from_matrix(ps);
    DelMatrix(&ps); DelTensor(&pb);
  }
  DelCPCAModel(&m); DelTensor(&t);
}
struct PreArg { const Mat *X; int scaling; Mat E; };
static void call_pre(void *a_) {
  PreArg &a = *(PreArg *)a_;
  matrix *x = to_matrix(*a.X), *e; NewMatrix(&e, x->row, x->col);
  dvector *avg, *sc; initDVector(&avg); initDVector(&sc);
  MatrixPreprocess(x, a.scaling, avg, sc, e);
  a.E = from_matrix(e);
  DelDVector(&avg); DelDVector(&sc); DelMatrix(&e); DelMatrix(&x);
}
struct PcaArg { const Mat *X; int npc; Mat scores; std::vector<double> varexp; };
static void call_pca(void *a_) {
  PcaArg &a = *(PcaArg *)a_;
  matrix *x = to_matrix(*a.X); PCAMODEL *m; NewPCAModel(&m);
  PCA(x, -1, (size_t)a.npc, m, NULL);   // the concatenation is already preprocessed
  a.scores = from_matrix(m->scores); a.varexp = from_dvector(m->varexp);
  DelPCAModel(&m); DelMatrix(&x);
}

struct HCpca : Harness {
  const char *engine() const override { return "h_cpca"; }

  Plan generate(uint64_t seed) override {
    Plan p;
    Prng wr(seed, PURPOSE_WORKLOAD), mr(seed, PURPOSE_MACHINE), sr(seed, PURPOSE_SCHEDULE);
    gen_machine(p, mr, sr, true, 8);
    if (p.geti("sched.strategy") == 4) p.seti("sched.strategy", 2);
    int nb = (int)wr.range(2, 4), n = (int)wr.range(5, tier == "quick" ? 16 : 30);
    std::vector<std::string> w; int minw = 99;
    for (int b = 0; b < nb; b++) { int c = (int)wr.range(1, 8); w.push_back(std::to_string(c)); minw = std::min(minw, c); }
    p.seti("rows", n); p.setlist("widths", w); p.seti("scaling", (int)wr.range(0, 5));
    p.seti("npc", (int)wr.range(1, std::min(minw, 3 + (int)wr.below(6))));
    p.setd("rho", wr.uniform(0.2, 0.8));
    p.setu("data.seed", wr.next() >> 4);
    if (wr.chance(0.5)) p.seti("reuse_outputs", 1);
    if (wr.chance(0.15)) p.seti("const_var", 1);
    // blocks measured in different units (different instruments): per-block factor 10^e; option 0 keeps the unit, so it gets the wide range
    // ... and, for option 0 (which keeps the unit), the whole data set in a very small or very large unit
    if (p.geti("scaling") == 0 && wr.chance(0.35)) p.setd("unit_exp", wr.chance(0.7) ? wr.uniform(-8.0, -3.0) : wr.uniform(3.0, 6.0));
    if (wr.chance(0.4)) { std::vector<std::string> u; bool keep = p.geti("scaling") == 0; for (int b = 0; b < nb; b++) { char t[32]; snprintf(t, sizeof t, "%.3f", keep ? wr.uniform(-4.0, 4.0) : wr.uniform(-1.0, 3.0)); u.push_back(t); } p.setlist("block_unit_exp", u); }
    return p;
  }

  struct Fit { int rc; COut out; sim_result sr; std::string race_cls, race_txt, switches; int unjoined; };
  Fit fit(const Plan &p, const std::vector<Mat> &blocks, int scaling, int npc, int nproc, int strategy_override, bool extras) {
    sim_cfg sc; std::vector<sim_switch> rs; cfg_from_plan(p, sc, rs);
    if (strategy_override >= 0) { sc.strategy = strategy_override; sc.replay = nullptr; sc.n_replay = 0; }
    sc.nproc = nproc; sc.step_limit = (tier == "quick") ? 100000000ULL : 1000000000ULL;
    sc.garbage_mode = strategy_override == SIM_S0_SEQUENTIAL ? (nproc == 1 ? 2 : 1) : 3;  // zeros / NaN garbage / huge finite garbage in the three fits
    sim_begin_run(&sc);
    Fit f; CCall c{&blocks, scaling, npc, &f.out, extras}; c.reuse = p.geti("reuse_outputs", 0) != 0;
    f.rc = sim_guard(call_cpca, &c);
    f.unjoined = sim_unjoined();
    sim_end_run(&f.sr);
    if (f.sr.races && races_are_verdicts()) { f.race_cls = race_class(); f.race_txt = races_text(); }
    const sim_switch *sw; size_t n = sim_switches(&sw); if (n && n < 6000) f.switches = switches_text(sw, n);
    return f;
  }

  Outcome execute(const Plan &p) override {
    Outcome o;
    Prng dr(p.getu("data.seed"), PURPOSE_WORKLOAD);
    int n = (int)p.geti("rows"), scaling = (int)p.geti("scaling"), npc = (int)p.geti("npc"), nproc = (int)p.geti("machine.nproc", 1);
    std::vector<int> widths; for (auto &t : p.list("widths")) widths.push_back(atoi(t.c_str()));
    int nb = (int)widths.size(), ptot = 0; for (int w : widths) ptot += w;
    for (int w : widths) npc = std::min(npc, w);
    // concatenated data with a separated spectrum: U diag(s) V' + offsets, then cut into blocks
    int r = std::min(n, ptot);
    LMat U = lrandom_orthogonal(n, dr), V = lrandom_orthogonal(ptot, dr);
    double rho = sqrt(p.getd("rho", 0.6)); LD cur = 20.0L * (1 + dr.unit());
    std::vector<LD> s(r); for (int k = 0; k < r; k++) { s[k] = cur; cur *= rho * dr.uniform(0.7, 1.0); }
    Mat Xall(n, std::vector<double>(ptot));
    for (int i = 0; i < n; i++) for (int j = 0; j < ptot; j++) { LD v = 0; for (int k = 0; k < r; k++) v += U[i][k] * s[k] * V[j][k]; Xall[i][j] = (double)v; }
    for (int j = 0; j < ptot; j++) { double off = dr.uniform(-30, 30); if (scaling == 5 && fabs(off) < 2) off = off < 0 ? -3 : 3; for (int i = 0; i < n; i++) Xall[i][j] += off; }
    std::vector<Mat> blocks; { int c0 = 0; for (int w : widths) { Mat B(n, std::vector<double>(w)); for (int i = 0; i < n; i++) for (int j = 0; j < w; j++) B[i][j] = Xall[i][c0 + j]; blocks.push_back(B); c0 += w; } }
    if (p.geti("const_var", 0)) {  // one variable of a block (of width >= 2) is constant: preprocessing zeroes it, the block still counts all its variables
      Prng cr(p.getu("data.seed") ^ 0xc0ffeeULL, PURPOSE_WORKLOAD);
      std::vector<int> wide; for (int b = 0; b < nb; b++) if (widths[b] >= 2) wide.push_back(b);
      if (!wide.empty()) { int b = wide[cr.below(wide.size())], j = (int)cr.below(widths[b]); double v = cr.uniform(-30, 30); if (scaling == 5 && fabs(v) < 2) v = 3; for (auto &r : blocks[b]) r[j] = v; o.counters["probe.constant_variable_in_a_block"]++; }
    }
    if (p.has("unit_exp")) { double f = pow(10.0, p.getd("unit_exp", 0.0)); for (auto &B : blocks) for (auto &r : B) for (double &v : r) v *= f; o.counters[f < 1 ? "probe.small_unit" : "probe.large_unit"]++; }
    if (p.has("block_unit_exp")) { auto u = p.list("block_unit_exp"); for (int b = 0; b < nb && b < (int)u.size(); b++) { double f = pow(10.0, atof(u[b].c_str())); for (auto &r : blocks[b]) for (double &v : r) v *= f; } o.counters["probe.blocks_in_different_units"]++; }
    char cfg[200]; snprintf(cfg, sizeof cfg, "C09 n=%d blocks=%s scaling=%d npc=%d nproc=%d", n, p.get("widths").c_str(), scaling, npc, nproc);
    o.cfg = cfg;
    int plan_strategy = p.has("sched.switches") ? SIM_REPLAY : (int)p.geti("sched.strategy");

    // reference concatenation: each block preprocessed identically (library preprocessing, trusted), divided by sqrt(width)
    Mat Xc(n, std::vector<double>(ptot));
    std::vector<Mat> Epre;  // the preprocessed blocks themselves
    { sim_cfg sc; sim_cfg_default(&sc); sc.detect_races = 0; sc.nproc = 1; sim_begin_run(&sc);
      int c0 = 0; for (int b = 0; b < nb; b++) { PreArg pa{&blocks[b], scaling, {}}; sim_guard(call_pre, &pa); Epre.push_back(pa.E); double m = sqrt((double)widths[b]); for (int i = 0; i < n; i++) for (int j = 0; j < widths[b]; j++) Xc[i][c0 + j] = pa.E[i][j] / m; c0 += widths[b]; }
      sim_end_run(nullptr); }
    LMat E = to_l(Xc); LMat G = lgram(E); LVec ev; LMat Vv; ljacobi(G, ev, Vv);
    LD tr = 0; for (LD v : ev) tr += v;
    double rmax = 0; for (int k = 0; k < npc && k + 1 < (int)ev.size(); k++) if (ev[k] > 0) rmax = fmax(rmax, (double)(ev[k + 1] / ev[k]));
    if (tr <= 0 || rmax > 0.94 || !(ev[std::min(npc, (int)ev.size()) - 1] > 1e-12L * ev[0])) { o.counters["skipped.spectrum_not_separated"]++; o.hash = 3; return o; }

    Fit A = fit(p, blocks, scaling, npc, 1, SIM_S0_SEQUENTIAL, false);
    Fit C = fit(p, blocks, scaling, npc, nproc, SIM_S0_SEQUENTIAL, false);
    Fit B = fit(p, blocks, scaling, npc, nproc, -1, true);
    for (Fit *f : {&A, &C, &B}) fill_outcome_from_sim(o, f->sr, plan_strategy);
    o.sched_sig = B.sr.sched_sig; o.nontrivial = B.sr.max_live >= 2;
    o.counters["nproc." + std::to_string(nproc)]++;
    o.counters["scaling." + std::to_string(scaling)]++;
    o.counters["blocks." + std::to_string(blocks.size())]++;
    { bool eq = false; for (size_t b = 1; b < blocks.size(); b++) if (blocks[b][0].size() == blocks[b - 1][0].size()) eq = true; if (eq) o.counters["probe.adjacent_blocks_equal_width"]++; }
    Hasher h; h.u64(A.sr.hist_hash); h.u64(C.sr.hist_hash); h.u64(B.sr.hist_hash); hash_mat(h, B.out.super_scores); hash_vec(h, B.out.total_expvar);
    o.hash = h.h;
    if (A.rc == SIM_CEILING || B.rc == SIM_CEILING || C.rc == SIM_CEILING) { o.counters["skipped.step_ceiling"]++; return o; }
    if (A.rc || B.rc || C.rc) { o.fail("abort", "CPCA aborted on a valid call"); return o; }
    if (B.unjoined || C.unjoined) o.fail("unjoined-thread", "CPCA: a kernel worker was not joined");
    for (Fit *f : {&C, &B}) if (!f->race_cls.empty()) { o.fail(f->race_cls, "CPCA kernels: workers overlap: " + f->race_txt); break; }
    const COut &M = B.out;
    if (M.super_scores.size() != (size_t)n || M.super_scores[0].size() != (size_t)npc || M.total_expvar.size() != (size_t)npc || M.block_scores.size() != (size_t)npc || M.block_expvar.size() != (size_t)npc) { o.fail("shape", "CPCA: model fields have the wrong shape"); return o; }
    for (int i = 0; i < n && !o.violation; i++) for (int k = 0; k < npc; k++) {
      if (!same_bits(M.super_scores[i][k], C.out.super_scores[i][k])) { o.fail("schedule-divergence", "CPCA super scores differ between schedules"); break; }
      double sc = fabs(A.out.super_scores[i][k]) + 1; if (fabs(C.out.super_scores[i][k] - A.out.super_scores[i][k]) > 1e-9 * sc * 100) { o.fail("nproc-divergence", "CPCA super scores differ between processor counts"); break; }
    }
    if (o.violation) { if (!p.has("sched.switches")) o.switch_list = B.switches; return o; }

    // PCA of the concatenation through the library (the property's comparator)
    PcaArg pa{&Xc, npc, {}, {}};
    { sim_cfg sc; sim_cfg_default(&sc); sc.detect_races = 0; sc.nproc = 1; sc.step_limit = (tier == "quick") ? 100000000ULL : 1000000000ULL; sim_begin_run(&sc); int rc = sim_guard(call_pca, &pa); sim_end_run(nullptr); if (rc != SIM_OK) { o.counters["skipped.reference_pca_failed"]++; return o; } }
    NipalsTol tol = nipals_tolerances(ev, npc, n, DOC_PCA_CRITERION, 10.0, ptot);   // accuracy of the comparator PCA, see oracle/nipals_tol.hpp
    int kmax = tol.kmax;
    if (kmax < npc) o.counters["skipped.components_undecidable"] += npc - kmax;
    for (int k = 0; k < kmax && !o.violation; k++) {
      LVec ts(n), tp(n); for (int i = 0; i < n; i++) { ts[i] = M.super_scores[i][k]; tp[i] = pa.scores[i][k]; }
      LD sgn = ldot(ts, tp) < 0 ? -1 : 1, d = 0, tn = lnorm(tp);
      for (int i = 0; i < n; i++) d += (ts[i] - sgn * tp[i]) * (ts[i] - sgn * tp[i]);
      double tolk = 3 * tol.score_rel[k] + 1e-8;
      if (sqrtl(d) > tolk * (tn + 1e-300L)) { char m[260]; snprintf(m, sizeof m, "super score %d differs from the PCA score of the block-scaled concatenation: relative difference %.3Lg (allowed %.3g), scaling %d, widths %s", k, sqrtl(d) / tn, tolk, scaling, p.get("widths").c_str()); o.fail("super-score-not-pca-score", m); }
      LD want = pa.varexp[k];
      if (!o.violation && fabsl((LD)M.total_expvar[k] - want) > 2 * tol.eval_rel[k] * fabsl(want) + 1e-9L) { char m[200]; snprintf(m, sizeof m, "total explained variance %d is %.8g, the PCA of the concatenation has %.8Lg", k, M.total_expvar[k], want); o.fail("total-variance-not-pca", m); }
    }
    // super score = block scores x super weights
    for (int k = 0; k < npc && !o.violation; k++) {
      if (M.block_scores[k].size() != (size_t)n || M.block_scores[k][0].size() != (size_t)nb) { o.fail("shape", "CPCA: block score matrix has the wrong shape"); break; }
      LD tn = 0; for (int i = 0; i < n; i++) tn += (LD)M.super_scores[i][k] * M.super_scores[i][k]; tn = sqrtl(tn);
      for (int i = 0; i < n; i++) { LD v = 0; for (int b = 0; b < nb; b++) v += (LD)M.block_scores[k][i][b] * M.super_weights[b][k]; if (fabsl(v - M.super_scores[i][k]) > 1e-8L * (tn + 1e-300L)) { char m[200]; snprintf(m, sizeof m, "super score[%d][%d]=%.12g but block scores x super weights = %.12Lg", i, k, M.super_scores[i][k], v); o.fail("super-score-not-blocks-times-weights", m); break; } }
    }
    // block explained variance: cumulative, within [0,100], non decreasing
    for (int k = 0; k < npc && !o.violation; k++) for (int b = 0; b < nb; b++) {
      double v = M.block_expvar[k][b];
      if (!(v >= -1e-9 && v <= 100 + 1e-9)) { char m[160]; snprintf(m, sizeof m, "block %d explained variance after component %d is %.10g", b, k, v); o.fail("block-variance-range", m); break; }
      if (k && v < M.block_expvar[k - 1][b] - 1e-9) { char m[200]; snprintf(m, sizeof m, "block %d cumulative explained variance decreases: %.10g after %.10g", b, v, M.block_expvar[k - 1][b]); o.fail("block-variance-not-cumulative", m); break; }
    }
    // ... and they are what "cumulative explained variance of block b after k components" means: the share of the preprocessed block's
    // sum of squares removed by deflating with the model's own super scores and block loadings
    if (!o.violation && (int)Epre.size() == nb && (int)M.block_loadings.size() == nb) {
      for (int b = 0; b < nb && !o.violation; b++) {
        if ((int)M.block_loadings[b].size() != widths[b]) continue;
        LMat R = to_l(Epre[b]); LD ss0 = 0; for (auto &r : R) for (LD v : r) ss0 += v * v;
        if (!(ss0 > 0)) { o.counters["skipped.block_without_variance"]++; continue; }
        for (int k = 0; k < npc && !o.violation; k++) {
          if ((int)M.block_loadings[b][0].size() <= k) break;
          LD ssk = 0; for (int i = 0; i < n; i++) for (int j = 0; j < widths[b]; j++) { R[i][j] -= (LD)M.super_scores[i][k] * M.block_loadings[b][j][k]; ssk += R[i][j] * R[i][j]; }
          LD want = (1 - ssk / ss0) * 100; double got = M.block_expvar[k][b];
          if (fabsl(want - got) > 1e-6L) { char m[260]; snprintf(m, sizeof m, "block %d: stored cumulative explained variance after component %d is %.10g, deflating the preprocessed block with the model's super scores and block loadings removes %.10Lg %% (scaling %d)", b, k, got, want, scaling); o.fail("block-variance-value", m); }
        }
      }
      o.counters["probe.block_variance_recomputed"]++;
    }
    // projecting the training tensor reproduces the super scores
    if (!o.violation) {
      if (M.pred_super.size() != (size_t)n) o.fail("shape", "CPCAScorePredictor: wrong shape");
      else for (int k = 0; k < npc && !o.violation; k++) { LD tn = 0, d = 0; for (int i = 0; i < n; i++) { tn += (LD)M.super_scores[i][k] * M.super_scores[i][k]; LD e = (LD)M.pred_super[i][k] - M.super_scores[i][k]; d += e * e; } if (sqrtl(d) > 1e-6L * (sqrtl(tn) + 1e-300L) * (k + 1)) { char m[200]; snprintf(m, sizeof m, "CPCAScorePredictor on the training tensor: super score %d differs by %.3Lg relative", k, sqrtl(d) / sqrtl(tn)); o.fail("projection-of-training-data", m); } }
    }
    o.counters["probe.identities_checked"]++;
    if (o.violation && !p.has("sched.switches")) o.switch_list = B.switches;
    return o;
  }

  std::vector<Plan> shrink(const Plan &p) override {
    std::vector<Plan> out;
    auto with = [&](const char *k, long long v) { Plan q = p; q.seti(k, v); out.push_back(q); };
    if (p.geti("sched.strategy") != 0 && !p.has("sched.switches")) with("sched.strategy", 0);
    long long n = p.geti("rows"), np = p.geti("machine.nproc"), npc = p.geti("npc");
    for (long long v : {(long long)2, np - 1}) if (v >= 1 && v < np) with("machine.nproc", v);
    for (long long v : {n - 3, n - 1}) if (v >= 5 && v < n) with("rows", v);
    if (npc > 1) with("npc", npc - 1);
    std::vector<std::string> w = p.list("widths");
    if (w.size() > 2) { std::vector<std::string> k(w.begin(), w.end() - 1); Plan q = p; q.setlist("widths", k); out.push_back(q); }
    for (size_t i = 0; i < w.size(); i++) if (atoi(w[i].c_str()) > (int)npc && atoi(w[i].c_str()) > 1) { std::vector<std::string> k = w; k[i] = std::to_string(atoi(w[i].c_str()) - 1); Plan q = p; q.setlist("widths", k); out.push_back(q); }
    shrink_switches(p, out);
    return out;
  }
};

int main(int argc, char **argv) { HCpca h; return harness_main(h, argc, argv); }
