#!/usr/bin/env python3
"""Store a confirmed seeded change under /verif/seeded/<name>/ (patch.diff, demo/, NOTES.md, meta.json).
usage: tools/keep_seeded.py <name> <property> <srcdir> <needs...> -- <verification summary>"""
import json, os, shutil, sys
VERIF = os.path.dirname(os.path.dirname(os.path.abspath(__file__)))
name, prop, src = sys.argv[1:4]
rest = sys.argv[4:]
i = rest.index('--')
needs, ran = ' '.join(rest[:i]), ' '.join(rest[i + 1:])
d = os.path.join(VERIF, 'seeded', name)
shutil.rmtree(d, ignore_errors=True); os.makedirs(d)
shutil.copy(os.path.join(src, 'patch.diff'), d)
shutil.copytree(os.path.join(src, 'demo'), os.path.join(d, 'demo'), ignore=shutil.ignore_patterns('demo', '*.o', '*.sqlite3', 'a.out', '*.txt'))
if os.path.exists(os.path.join(src, 'NOTES.md')): shutil.copy(os.path.join(src, 'NOTES.md'), d)
json.dump({'property': prop, 'origin': 'independent sub-agent given only the property text and a scratch worktree', 'needs_to_manifest': needs, 'what_was_run': ran}, open(os.path.join(d, 'meta.json'), 'w'), indent=1)
print('kept', d)
