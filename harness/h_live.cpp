// C18 — model fitting terminates with finite leading components on degenerate data.
// Bounded liveness on the simulated step clock: a call that exhausts its step budget is declared
// non-terminating and unwound in-process; no wall clock is involved.  See DESIGN.md section 3.
#include "lib.hpp"
// the documented NIPALS convergence criterion of PCA (pca.h at the pinned commit); deliberately NOT taken from the header of
// the tree under test: a tree that loosens the criterion must not loosen the oracle with it
#define DOC_PCA_CRITERION 1e-10
#include "linalg.hpp"
#include <algorithm>

enum Rt { T_PCA = 0, T_PLS, T_CPCA, T_LOO_MLR, T_KMEANS, T_NELDER, T_COUNT };
static const char *rt_name[] = {"PCA", "PLS", "CPCA", "LeaveOneOut/MLR", "KMeans", "NelderMeadSimplex"};
enum Deg { D_RANKDEF = 0, D_CONSTCOL, D_ALLCONST, D_DUPROWS, D_TINY, D_NPC_GT_RANK, D_CONST_Y, D_TWOVAL_Y, D_CONST_BLOCK, D_DUP_POINTS, D_FLAT, D_TIED, D_COUNT };
static const char *deg_name[] = {"rank-deficient", "constant-column", "all-constant", "duplicated-rows", "tiny-shape", "npc>rank", "constant-response", "two-valued-response",
                                 "constant-block", "duplicate-points", "flat-objective", "tied-eigenvalues"};

struct LCase {
  int rt, deg, n, p, ncomp, scaling, ys, nblocks, init, perturb_k;  // perturb_k: 0 = exact, else add 2^-k noise
  Mat X, Y; std::vector<Mat> blocks;
  // regular twin (same shapes, general position)
  Mat Xr, Yr; std::vector<Mat> blocksr;
};

static int g_flat_mode = 0;
static double nm_obj(dvector *x) {
  if (g_flat_mode == 1) return 1.0;                                                 // perfectly flat
  if (g_flat_mode == 2) { double s = 0; for (size_t i = 0; i < x->size; i++) s += fabs(x->data[i]) < 1 ? 0 : 1; return s; }  // plateaus
  double s = 0; for (size_t i = 0; i < x->size; i++) s += (x->data[i] - 1.0 - i) * (x->data[i] - 1.0 - i) * (1 + i);          // convex quadratic
  return s;
}

static Mat int_lowrank(Prng &r, int n, int p, int rank) {
  Mat X(n, std::vector<double>(p, 0.0));
  for (int k = 0; k < rank; k++) {
    std::vector<int> a(n), b(p);
    for (auto &v : a) v = (int)r.range(-3, 3);
    for (auto &v : b) v = (int)r.range(-3, 3);
    for (int i = 0; i < n; i++) for (int j = 0; j < p; j++) X[i][j] += a[i] * b[j];
  }
  for (int j = 0; j < p; j++) { int off = (int)r.range(-4, 4); for (int i = 0; i < n; i++) X[i][j] += off; }
  return X;
}
static Mat general(Prng &r, int n, int p) { Mat X(n, std::vector<double>(p)); for (auto &row : X) for (double &v : row) v = r.normal() * 2 + r.uniform(-1, 1); return X; }
static void perturb(Mat &X, Prng &r, int k) { if (!k) return; double e = ldexp(1.0, -k); for (auto &row : X) for (double &v : row) v += e * (double)r.range(-8, 8); }

static LCase case_from_plan(const Plan &p) {
  LCase c;
  c.rt = (int)p.geti("routine"); c.deg = (int)p.geti("deg"); c.n = (int)p.geti("rows"); c.p = (int)p.geti("cols"); c.ncomp = (int)p.geti("ncomp");
  c.scaling = (int)p.geti("scaling"); c.ys = (int)p.geti("yscaling"); c.nblocks = (int)p.geti("blocks", 2); c.init = (int)p.geti("init"); c.perturb_k = (int)p.geti("perturb_k");
  Prng r(p.getu("data.seed"), PURPOSE_WORKLOAD);
  int n = c.n, pp = c.p;
  int rank = (int)p.geti("rank", 1);
  auto degenerate = [&](int nn, int cols) {
    Mat X;
    switch (c.deg) {
      case D_RANKDEF: X = int_lowrank(r, nn, cols, std::min(rank, std::min(nn, cols))); break;
      case D_CONSTCOL: X = int_lowrank(r, nn, cols, std::min(nn, cols)); { int j = (int)r.below(cols); double v = (double)r.range(-5, 5); for (auto &row : X) row[j] = v; if (cols > 2 && r.chance(0.5)) { int j2 = (int)r.below(cols); for (auto &row : X) row[j2] = v + 1; } } break;
      case D_ALLCONST: X.assign(nn, std::vector<double>(cols, (double)r.range(-3, 3))); break;
      case D_DUPROWS: X = int_lowrank(r, nn, cols, std::min(nn, cols)); for (int i = 1; i < nn; i++) if (r.chance(0.6)) X[i] = X[r.below(i)]; break;
      case D_TIED: {  // orthogonal +-m columns (Walsh patterns over 8 or 4 rows): the centred cross-product matrix is m^2 n I, every eigenvalue tied
        X.assign(nn, std::vector<double>(cols, 0.0)); double m = (double)(r.chance(0.5) ? r.range(1, 9) : r.range(1000, 4000));
        for (int j = 0; j < cols; j++) { double mj = (j == 2 && r.chance(0.5)) ? m / 2 : m; double off = (double)r.range(-4, 4); for (int i = 0; i < nn; i++) X[i][j] = ((((i >> (j % 3)) & 1) ? mj : -mj)) + off; }
        if (cols >= 2 && r.chance(0.6)) {  // the variables MIX the two tied directions: columns a+b(1+d) and a-b(1+d), d a small dyadic number: eigenvalues 2|a|^2 and
          // 2|b|^2(1+d)^2, relative gap 2d, and every column is an equal mixture of the two axes (the slowest start for a power iteration)
          double d = r.chance(0.2) ? 0.0 : ldexp((double)r.range(1, 7), -(int)r.range(6, 28));
          for (int i = 0; i < nn; i++) { double a = ((i & 1) ? m : -m), b = (((i >> 1) & 1) ? m : -m) * (1 + d); X[i][0] = a + b + 3; X[i][1] = a - b - 2; }
        }
        break; }
      default: X = int_lowrank(r, nn, cols, std::min(nn, cols) + 1); break;  // full rank integers (tiny shapes, npc>rank, response classes)
    }
    perturb(X, r, c.perturb_k);
    return X;
  };
  if (c.rt == T_CPCA) {
    for (int b = 0; b < c.nblocks; b++) {
      Mat B = (c.deg == D_CONST_BLOCK && b == (int)(p.getu("data.seed") % c.nblocks)) ? Mat(n, std::vector<double>(pp, 2.0)) : degenerate(n, pp);
      c.blocks.push_back(B); c.blocksr.push_back(general(r, n, pp));
    }
  } else {
    c.X = degenerate(n, pp); c.Xr = general(r, n, pp);
  }
  int ny = (int)p.geti("ycols", 1);
  c.Y.assign(n, std::vector<double>(ny)); c.Yr = general(r, n, ny);
  for (int i = 0; i < n; i++) for (int k = 0; k < ny; k++) {
    if (c.deg == D_CONST_Y) c.Y[i][k] = 3.0 + k;
    else if (c.deg == D_TWOVAL_Y) c.Y[i][k] = (i + k) % 2;
    else c.Y[i][k] = (double)r.range(-6, 6) + 0.5 * (i % 3);
  }
  if (c.deg == D_CONST_Y && ny > 1 && r.chance(0.5)) for (int i = 0; i < n; i++) c.Y[i][1] = (double)r.range(-4, 4);  // one constant, one informative response
  if (c.rt == T_KMEANS && c.deg == D_DUP_POINTS) { int distinct = (int)p.geti("distinct", 2); Mat base = int_lowrank(r, distinct, pp, pp + 1); int lay = (int)p.geti("dup_layout", 0);   // 0 cyclic, 1 runs of identical rows one after the other, 2 random assignment, 3 one point repeated then the others once
    for (int i = 0; i < n; i++) { int w = lay == 1 ? (int)((long)i * distinct / n) : lay == 2 ? (int)r.below(distinct) : lay == 3 ? std::max(0, i - (n - distinct)) : i % distinct; c.X[i] = base[w]; } }
  if (p.has("unit_pow2")) {
    double u = ldexp(1.0, (int)p.geti("unit_pow2")), uy = ldexp(1.0, (int)p.geti("yunit_pow2", 0));
    for (Mat *M : {&c.X, &c.Xr}) for (auto &row : *M) for (double &v : row) v *= u;
    for (auto *L : {&c.blocks, &c.blocksr}) for (auto &B : *L) for (auto &row : B) for (double &v : row) v *= u;
    for (Mat *M : {&c.Y, &c.Yr}) for (auto &row : *M) for (double &v : row) v *= uy;
  }
  return c;
}

struct CallArg {
  const LCase *c; bool regular;
  // outputs
  Mat scores, loadings, E; std::vector<double> varexp, b, xvarexp; Mat xscores, xweights, yloadings; std::vector<size_t> labels; size_t ncent = 0; double nm = 0; Mat pred;
};

static void call_fit(void *a_) {
  CallArg &a = *(CallArg *)a_;
  const LCase &c = *a.c;
  const Mat &X = a.regular ? c.Xr : c.X; const Mat &Y = a.regular ? c.Yr : c.Y; const std::vector<Mat> &blocks = a.regular ? c.blocksr : c.blocks;
  switch (c.rt) {
    case T_PCA: {
      matrix *x = to_matrix(X); PCAMODEL *m; NewPCAModel(&m);
      PCA(x, c.scaling, (size_t)c.ncomp, m, NULL);
      a.scores = from_matrix(m->scores); a.loadings = from_matrix(m->loadings); a.varexp = from_dvector(m->varexp);
      DelPCAModel(&m); DelMatrix(&x);
      break;
    }
    case T_PLS: {
      matrix *x = to_matrix(X), *y = to_matrix(Y); PLSMODEL *m; NewPLSModel(&m);
      PLS(x, y, (size_t)c.ncomp, c.scaling, c.ys, m, NULL);
      a.xscores = from_matrix(m->xscores); a.loadings = from_matrix(m->xloadings); a.xweights = from_matrix(m->xweights); a.yloadings = from_matrix(m->yloadings); a.b = from_dvector(m->b); a.xvarexp = from_dvector(m->xvarexp);
      DelPLSModel(&m); DelMatrix(&x); DelMatrix(&y);
      break;
    }
    case T_CPCA: {
      tensor *t; initTensor(&t); for (auto &b : blocks) { matrix *x = to_matrix(b); TensorAppendMatrix(t, x); DelMatrix(&x); }
      CPCAMODEL *m; NewCPCAModel(&m);
      CPCA(t, c.scaling, (size_t)c.ncomp, m);
      a.scores = from_matrix(m->super_scores); a.varexp = from_dvector(m->total_expvar);
      DelCPCAModel(&m); DelTensor(&t);
      break;
    }
    case T_LOO_MLR: {
      matrix *x = to_matrix(X), *y = to_matrix(Y), *py, *pr; initMatrix(&py); initMatrix(&pr);
      MODELINPUT in = initModelInput(); in.mx = x; in.my = y;
      LeaveOneOut(&in, _MLR_, py, pr, 2, NULL, 0);
      a.pred = from_matrix(py);
      DelMatrix(&py); DelMatrix(&pr); DelMatrix(&x); DelMatrix(&y);
      break;
    }
    case T_KMEANS: {
      matrix *x = to_matrix(X); uivector *lab; initUIVector(&lab); matrix *cen; initMatrix(&cen);
      srand_(12345u + (unsigned)c.n);
      KMeans(x, (size_t)c.ncomp, c.init, lab, cen, 2);
      a.labels = from_uivector(lab); a.ncent = cen->row;
      DelMatrix(&cen); DelUIVector(&lab); DelMatrix(&x);
      break;
    }
    case T_NELDER: {
      dvector *x0, *best; NewDVector(&x0, (size_t)c.p); initDVector(&best);
      for (int i = 0; i < c.p; i++) x0->data[i] = 0.25 * (i + 1);
      g_flat_mode = a.regular ? 0 : (c.deg == D_FLAT ? 1 + (c.n % 2) : 0);
      a.nm = NelderMeadSimplex((double (*)())nm_obj, x0, NULL, 1e-10, 400, best);
      DelDVector(&x0); DelDVector(&best);
      break;
    }
  }
}

struct PreArg { const Mat *X; int scaling; Mat E; };
static void call_preprocess(void *a_) {
  PreArg &a = *(PreArg *)a_;
  matrix *x = to_matrix(*a.X), *e; NewMatrix(&e, x->row, x->col);
  dvector *avg, *sc; initDVector(&avg); initDVector(&sc);
  MatrixPreprocess(x, a.scaling, avg, sc, e);
  a.E = from_matrix(e);
  DelDVector(&avg); DelDVector(&sc); DelMatrix(&e); DelMatrix(&x);
}

struct HLive : Harness {
  const char *engine() const override { return "h_live"; }

  Plan generate(uint64_t seed) override {
    Plan p;
    Prng wr(seed, PURPOSE_WORKLOAD), mr(seed, PURPOSE_MACHINE), sr(seed, PURPOSE_SCHEDULE);
    gen_machine(p, mr, sr, false, 3);
    p.seti("sched.strategy", 0); p.seti("sched.detect", 0);
    p.seti("machine.nproc", wr.chance(0.85) ? 1 : (int)wr.range(2, 3));
    static const int weights[T_COUNT] = {34, 26, 14, 6, 14, 6};
    int rt = 0; { int x = (int)wr.below(100), acc = 0; for (int i = 0; i < T_COUNT; i++) { acc += weights[i]; if (x < acc) { rt = i; break; } } }
    int n = (int)wr.range(3, 12), pp = (int)wr.range(1, 6), deg = 0, ncomp = 1, rank = 1, ny = 1;
    switch (rt) {
      case T_PCA: { static const int d[] = {D_RANKDEF, D_CONSTCOL, D_ALLCONST, D_DUPROWS, D_TINY, D_NPC_GT_RANK, D_TIED}; deg = d[wr.below(wr.chance(0.06) ? 7 : 6)];
        if (deg == D_TINY) { n = (int)wr.range(2, 3); pp = (int)wr.range(1, 3); }
        rank = (int)wr.range(0, std::max(0, std::min(n - 1, pp) - 1)); ncomp = (int)wr.range(1, pp + 2); break; }
      case T_PLS: { static const int d[] = {D_CONST_Y, D_TWOVAL_Y, D_RANKDEF, D_NPC_GT_RANK, D_DUPROWS, D_CONSTCOL, D_ALLCONST}; deg = d[wr.below(7)];
        n = (int)wr.range(4, 12); ny = (int)wr.range(1, 2); rank = (int)wr.range(1, std::max(1, std::min(n - 1, pp) - 1)); ncomp = (int)wr.range(1, pp + 2); break; }
      case T_CPCA: { static const int d[] = {D_CONST_BLOCK, D_RANKDEF, D_NPC_GT_RANK, D_DUPROWS, D_CONSTCOL, D_TIED}; deg = d[wr.below(wr.chance(0.06) ? 6 : 5)];
        n = (int)wr.range(4, 10); pp = (int)wr.range(1, 4); rank = (int)wr.range(1, 2); ncomp = (int)wr.range(1, pp + 2); p.seti("blocks", (int)wr.range(2, 3)); break; }
      case T_LOO_MLR: { deg = wr.chance(0.5) ? D_RANKDEF : D_DUPROWS; n = (int)wr.range(5, 10); pp = (int)wr.range(2, 4); rank = 1; break; }
      case T_KMEANS: { deg = D_DUP_POINTS; n = (int)wr.range(3, 14); pp = (int)wr.range(1, 3); ncomp = (int)wr.range(1, 6); p.seti("distinct", (int)wr.range(1, std::max(1, std::min(n, 5)))); p.seti("init", (int)wr.below(4)); p.seti("dup_layout", (int)wr.below(4)); if (ncomp > n) ncomp = n; break; }
      case T_NELDER: { deg = wr.chance(0.6) ? D_FLAT : D_NPC_GT_RANK; pp = (int)wr.range(1, 5); break; }
    }
    if (deg == D_TIED && tier == "quick") p.seti("machine.nproc", 1);   // capped runs with thread creation per sweep cost tens of seconds: thorough tier only
    if (deg == D_TIED) { n = wr.chance(0.5) ? 8 : 4; pp = (int)wr.range(2, n == 8 ? 3 : 2); rank = pp; ncomp = (int)wr.range(1, pp); }
    p.seti("routine", rt); p.seti("deg", deg); p.seti("rows", n); p.seti("cols", pp); p.seti("ncomp", ncomp); p.seti("rank", rank); p.seti("ycols", ny);
    p.seti("scaling", rt == T_CPCA ? (int)wr.range(0, 3) : (int)wr.range(-1, 3)); p.seti("yscaling", (int)wr.range(0, 1));
    p.seti("perturb_k", wr.chance(0.25) ? (int)wr.range(20, 45) : 0);
    if (deg == D_TIED && wr.chance(0.7)) p.seti("perturb_k", (int)wr.range(8, 30));   // close but unequal eigenvalues: slow convergence, caps
    p.setu("data.seed", wr.next() >> 4);
    // unit of the data: an exact power of two (the degenerate structure stays exact), 1e-6 .. 1e6; responses get their own
    if (wr.chance(0.3)) { p.seti("unit_pow2", (int)wr.range(-20, 20)); p.seti("yunit_pow2", wr.chance(0.5) ? 0 : (int)wr.range(-20, 20)); }
    return p;
  }

  Outcome execute(const Plan &p) override {
    Outcome o;
    LCase c = case_from_plan(p);
    char cfg[200]; snprintf(cfg, sizeof cfg, "%s %s %dx%d ncomp=%d scaling=%d perturb=%d nproc=%d", rt_name[c.rt], deg_name[c.deg], c.n, c.p, c.ncomp, c.scaling, c.perturb_k, (int)p.geti("machine.nproc"));
    o.cfg = cfg;
    o.counters[std::string("routine.") + rt_name[c.rt]]++;
    o.counters[std::string("degeneracy.") + deg_name[c.deg]]++;
    if (p.has("unit_pow2")) o.counters[p.geti("unit_pow2") < -6 ? "probe.small_unit" : p.geti("unit_pow2") > 6 ? "probe.large_unit" : "probe.unit_near_one"]++;
    sim_cfg sc; std::vector<sim_switch> rs; cfg_from_plan(p, sc, rs); sc.detect_races = 0;
    sim_begin_run(&sc);
    Hasher h;
    // calibration: the same routine on a regular (general position) problem of the same shape
    CallArg reg{&c, true};
    // (its own ceiling: a shape on which even the regular problem does not finish - e.g. a minimisation candidate with more clusters than
    //  objects on a broken tree - is skipped quickly instead of costing minutes)
    sim_set_step_limit(sim_steps_now() + ((c.rt == T_PCA || c.rt == T_PLS || c.rt == T_CPCA) ? 2000000000ULL : 50000000ULL));
    uint64_t s0 = sim_steps_now();
    int rcr = sim_guard(call_fit, &reg);
    uint64_t calib = sim_steps_now() - s0;
    sim_set_step_limit(0);
    if (rcr != SIM_OK) { sim_end_run(nullptr); o.counters["skipped.calibration_failed"]++; o.hash = 1; return o; }
    // the NIPALS routines may legitimately run into their iteration caps (10000 iterations per component: up to ~1300 x a regular call has been
    // observed); k-means, the simplex and the MLR validation have small caps of their own (largest observed ratio 23), so a hang there
    // is declared after 2000 x a regular call instead of 20000 x - a quick run must be able to afford several of them
    bool nipals = c.rt == T_PCA || c.rt == T_PLS || c.rt == T_CPCA;
    // (100000 x for NIPALS since the tied-eigenvalues class: a regular call can converge in one or two sweeps, a capped one makes 10000 per component)
    uint64_t B = (nipals ? 100000ULL : 2000ULL) * calib + 1000000ULL;
    if (B > (nipals ? 10000000000ULL : 400000000ULL)) B = nipals ? 10000000000ULL : 400000000ULL;
    // a regular call can be so cheap (one sweep, no worker thread) that no multiple of it covers a legitimately capped run of 10000 sweeps per
    // component with thread creation charged at 5000 steps: the NIPALS budget never goes below what 6 capped components on 3 processors can cost
    if (nipals && B < 6000000000ULL) B = 6000000000ULL;
    if (p.has("budget_override")) B = p.getu("budget_override");
    // the degenerate call
    CallArg deg{&c, false};
    uint64_t s1 = sim_steps_now();
    sim_set_step_limit(s1 + B);
    int rc = sim_guard(call_fit, &deg);
    uint64_t used = sim_steps_now() - s1;
    sim_set_step_limit(0);
    o.nontrivial = true;
    h.u64(rc); h.u64(rc == SIM_OK ? used : 0);
    uint64_t permille = B ? used * 1000 / B : 0;
    if (rc == SIM_OK) { o.counters[std::string("max.permille_of_budget_used.") + rt_name[c.rt]] = permille; o.counters[std::string("max.steps_ratio_to_regular.") + rt_name[c.rt]] = calib ? used / calib : 0; }
    if (rc == SIM_CEILING) {
      char m[300]; snprintf(m, sizeof m, "%s on %s input (%dx%d, %d components, scaling %d) does not return: step budget %llu exhausted (a regular call of the same shape takes %llu steps)", rt_name[c.rt], deg_name[c.deg], c.n, c.p, c.ncomp, c.scaling, (unsigned long long)B, (unsigned long long)calib);
      o.fail(std::string("non-termination:") + rt_name[c.rt], m);
    } else if (rc == SIM_ABORTED) {
      o.counters["probe.clean_abort"]++;  // a clean abort is a bounded return; whether it is acceptable is not C18's question
    } else {
      o.counters["probe.returned"]++;
      // finite leading components
      if (c.rt == T_PLS && !o.violation) {
        // the fields of a PLS model describe the same number of latent variables (every consumer indexes them in parallel)
        size_t nl = deg.xscores.empty() ? 0 : deg.xscores[0].size();
        bool ok = deg.b.size() == nl && deg.xvarexp.size() == nl && (deg.loadings.empty() || deg.loadings[0].size() == nl) && (deg.xweights.empty() || deg.xweights[0].size() == nl) && (deg.yloadings.empty() || deg.yloadings[0].size() == nl);
        if (!ok) { char m[260]; snprintf(m, sizeof m, "PLS on %s input: model fields disagree about the number of latent variables (x scores %zu, b %zu, x explained variance %zu)", deg_name[c.deg], nl, deg.b.size(), deg.xvarexp.size()); o.fail("shape", m); }
      }
      if (!o.violation && (c.rt == T_PCA || c.rt == T_PLS)) {
        PreArg pa{&c.X, c.scaling, {}};
        sim_guard(call_preprocess, &pa);
        LMat E = to_l(pa.E);
        LD gap = 0, rej = 0; size_t rank = lrank(E, 1e-9L, &gap, &rej);
        bool clear = (gap > 1e5L) || rank == std::min(E.size(), E.empty() ? 0 : E[0].size());
        size_t ncomp_eff = std::min<size_t>((size_t)c.ncomp, (size_t)c.p);
        if (!clear) o.counters["skipped.rank_ambiguous"]++;
        else if (c.rt == T_PCA) {
          if (a_size(deg.varexp) != ncomp_eff) o.fail("shape", "PCA: explained-variance vector has the wrong length");
          LMat Ek = E;
          LD en0 = lfro(E);
          for (size_t k = 0; k < ncomp_eff && !o.violation; k++) {
            if (k < rank) {
              LVec pk(c.p), tk(c.n);
              bool fin = std::isfinite(deg.varexp[k]);
              for (int j = 0; j < c.p; j++) { pk[j] = deg.loadings[j][k]; fin = fin && std::isfinite(deg.loadings[j][k]); }
              for (int i = 0; i < c.n; i++) { tk[i] = deg.scores[i][k]; fin = fin && std::isfinite(deg.scores[i][k]); }
              if (!fin) { char m[200]; snprintf(m, sizeof m, "PCA on %s input: component %zu of %zu defined ones is not finite", deg_name[c.deg], k + 1, rank); o.fail("non-finite-leading-component", m); break; }
              if (fabsl(lnorm(pk) - 1) > 1e-8L) o.fail("identity", "PCA: leading loading is not unit length on degenerate input");
              for (size_t l = 0; l < k && !o.violation; l++) { LVec pl(c.p); for (int j = 0; j < c.p; j++) pl[j] = deg.loadings[j][l]; if (fabsl(ldot(pk, pl)) > 1e-5L) o.fail("identity", "PCA: leading loadings are not orthogonal on degenerate input"); /* 1e-5: components of 2^-k perturbed data sit 1e7..1e13 below the leading one, rounding in the deflation is amplified accordingly */ }
              // tolerance relative to the undeflated matrix: deflation itself carries rounding errors of that size
              for (int i = 0; i < c.n && !o.violation; i++) { LD s = ldot(Ek[i], pk); if (fabsl(s - tk[i]) > 1e-9L * (en0 + 1e-300L)) { o.fail("identity", "PCA: leading score is not the projection of the deflated data on its loading (degenerate input)"); } }
              for (int i = 0; i < c.n; i++) for (int j = 0; j < c.p; j++) Ek[i][j] -= tk[i] * pk[j];
            } else {
              if (deg.varexp[k] != deg.varexp[k]) { char m[200]; snprintf(m, sizeof m, "PCA on %s input: explained variance of component %zu (beyond rank %zu) is NaN", deg_name[c.deg], k + 1, rank); o.fail("nan-beyond-rank", m); }
              // zero up to what the convergence criterion of the earlier components can leave behind (same tau as C01's bookkeeping)
              else if (fabs(deg.varexp[k]) > 200.0 * ncomp_eff * sqrt((double)c.n * DOC_PCA_CRITERION)) { char m[200]; snprintf(m, sizeof m, "PCA: explained variance beyond the rank is %.3g, not zero", deg.varexp[k]); o.fail("variance-beyond-rank", m); }
            }
          }
          o.counters["probe.rank_checked"]++;
          if (rank < ncomp_eff) o.counters["probe.components_beyond_rank"]++;
        } else {
          // PLS: latent variables are defined while X has rank left and the (preprocessed) responses are not all constant
          PreArg py{&c.Y, c.ys, {}};
          sim_guard(call_preprocess, &py);
          bool ynull = true; for (auto &r : py.E) for (double v : r) if (v != 0) ynull = false;
          // a latent variable needs covariance between the blocks: ||X'Y|| clearly above rounding level
          LMat Yl = to_l(py.E);
          LD cov = 0; for (size_t a = 0; a < (size_t)c.p; a++) for (size_t b2 = 0; b2 < Yl[0].size(); b2++) { LD sacc = 0; for (int i = 0; i < c.n; i++) sacc += E[i][a] * Yl[i][b2]; cov += sacc * sacc; }
          bool covnull = sqrtl(cov) <= 1e-9L * (lfro(E) * lfro(Yl) + 1e-300L);
          if (covnull && !ynull) o.counters["probe.no_covariance_between_blocks"]++;
          size_t defined = (ynull || covnull) ? 0 : std::min(rank, ncomp_eff);
          if (deg.xvarexp.size() != ncomp_eff) o.fail("shape", "PLS: x explained-variance vector has the wrong length");
          for (size_t k = 0; k < ncomp_eff && !o.violation; k++) {
            if (k < defined && k == 0) {  // the first latent variable is defined whenever X and Y carry any variance
              bool fin = std::isfinite(deg.b[k]) && std::isfinite(deg.xvarexp[k]);
              for (int i = 0; i < c.n; i++) fin = fin && std::isfinite(deg.xscores[i][k]);
              for (int j = 0; j < c.p; j++) fin = fin && std::isfinite(deg.loadings[j][k]);
              if (!fin) { char m[200]; snprintf(m, sizeof m, "PLS on %s input: first latent variable is not finite", deg_name[c.deg]); o.fail("non-finite-leading-component", m); }
            }
            if (k >= rank || ynull) {
              if (deg.xvarexp[k] != deg.xvarexp[k]) { char m[200]; snprintf(m, sizeof m, "PLS on %s input: x explained variance of latent variable %zu (beyond what is defined) is NaN", deg_name[c.deg], k + 1); o.fail("nan-beyond-rank", m); }
            }
          }
          // later latent variables: deflate with the library's own (finite) scores, loadings and coefficients in long double; as long
          // as the deflated blocks still have clear covariance, the next latent variable is mathematically defined and must be finite
          if (!o.violation && !ynull && !covnull && deg.b.size() == ncomp_eff && deg.yloadings.size() == Yl[0].size()) {
            LMat Xk = E, Yk = Yl; LD x0 = lfro(E), y0 = lfro(Yl);
            for (size_t k = 0; k < ncomp_eff && !o.violation; k++) {
              LD cv = 0; for (int a2 = 0; a2 < c.p; a2++) for (size_t b2 = 0; b2 < Yk[0].size(); b2++) { LD sacc = 0; for (int i = 0; i < c.n; i++) sacc += Xk[i][a2] * Yk[i][b2]; cv += sacc * sacc; }
              bool defined_k = sqrtl(cv) > 1e-6L * (x0 * y0 + 1e-300L) && lfro(Xk) > 1e-6L * x0;
              bool fin = std::isfinite(deg.b[k]) && std::isfinite(deg.xvarexp[k]);
              for (int i = 0; i < c.n; i++) fin = fin && std::isfinite(deg.xscores[i][k]);
              for (int j = 0; j < c.p; j++) fin = fin && std::isfinite(deg.loadings[j][k]) && std::isfinite(deg.xweights[j][k]);
              for (size_t j = 0; j < Yk[0].size(); j++) fin = fin && std::isfinite(deg.yloadings[j][k]);
              if (defined_k && !fin) { char m[240]; snprintf(m, sizeof m, "PLS on %s input: latent variable %zu is defined (the deflated blocks still covary) but is not finite", deg_name[c.deg], k + 1); o.fail("non-finite-leading-component", m); break; }
              if (!fin) break;  // nothing to deflate with
              for (int i = 0; i < c.n; i++) { for (int j = 0; j < c.p; j++) Xk[i][j] -= (LD)deg.xscores[i][k] * deg.loadings[j][k]; for (size_t j = 0; j < Yk[0].size(); j++) Yk[i][j] -= (LD)deg.b[k] * deg.xscores[i][k] * deg.yloadings[j][k]; }
              if (defined_k) o.counters["probe.pls_later_lv_checked"] += k > 0;
            }
          }
          o.counters["probe.rank_checked"]++;
        }
      }
      if (c.rt == T_CPCA && deg.varexp.size() && deg.scores.size() == (size_t)c.n) {
        // CPCA: rank of the block-scaled concatenation of the preprocessed blocks
        LMat Ec(c.n, LVec());
        for (auto &b : c.blocks) { PreArg pb{&b, c.scaling, {}}; sim_guard(call_preprocess, &pb); double m = sqrt((double)b[0].size()); for (int i = 0; i < c.n; i++) for (double v : pb.E[i]) Ec[i].push_back((LD)v / m); }
        LD gap = 0; size_t rank = lrank(Ec, 1e-9L, &gap);
        size_t ncomp_eff = deg.varexp.size();
        // "numerical rank" has to be unambiguous: the same count at a tolerance of 1e-9 and of 1e-5 (a direction at 1e-8 of the leading one -
        // e.g. what imperfect centring of perturbed data leaves behind - is neither clearly a component nor clearly noise)
        LD gap5 = 0; size_t rank5 = lrank(Ec, 1e-5L, &gap5);
        bool clear = ((gap > 1e5L) || rank == std::min(Ec.size(), Ec[0].size())) && rank5 == rank;
        if (getenv("HLIVE_DEBUG")) { for (auto &b : c.blocks) { fprintf(stderr, "block %zux%zu:", b.size(), b[0].size()); for (auto &r : b) { fprintf(stderr, " {"); for (double v : r) fprintf(stderr, "%a,", v); fprintf(stderr, "}"); } fprintf(stderr, "\n"); } }
        if (getenv("HLIVE_DEBUG")) { fprintf(stderr, "CPCA oracle: rank=%zu gap=%.3Lg dims=%zux%zu\n", rank, gap, Ec.size(), Ec[0].size()); for (auto &r : Ec) { for (LD v : r) fprintf(stderr, " %.20Lg", v); fprintf(stderr, "\n"); } }
        if (!clear) o.counters["skipped.rank_ambiguous"]++;
        else for (size_t k = 0; k < ncomp_eff && !o.violation; k++) {
          if (k < rank) {
            bool fin = std::isfinite(deg.varexp[k]); for (int i = 0; i < c.n; i++) fin = fin && std::isfinite(deg.scores[i][k]);
            if (!fin) { char m[240]; snprintf(m, sizeof m, "CPCA on %s input: component %zu of %zu defined ones (super scores / total explained variance) is not finite", deg_name[c.deg], k + 1, rank); o.fail("non-finite-leading-component", m); }
            else {
              // ... and it is a component: a defined direction must not come back as the all-zero placeholder of a null component
              LD tn = 0; for (int i = 0; i < c.n; i++) tn += (LD)deg.scores[i][k] * deg.scores[i][k];
              if (!(tn > 0) || !(deg.varexp[k] > 0)) { char m[260]; snprintf(m, sizeof m, "CPCA on %s input: component %zu of %zu defined ones came back null (super score norm %.3Lg, total explained variance %.6g)", deg_name[c.deg], k + 1, rank, sqrtl(tn), deg.varexp[k]); o.fail("null-component-within-rank", m); }
            }
          } else if (deg.varexp[k] != deg.varexp[k]) { char m[200]; snprintf(m, sizeof m, "CPCA on %s input: total explained variance of component %zu (beyond rank %zu) is NaN", deg_name[c.deg], k + 1, rank); o.fail("nan-beyond-rank", m); }
        }
        o.counters["probe.cpca_rank_checked"]++;
      }
      if (c.rt == T_KMEANS) {
        if (deg.labels.size() != (size_t)c.n) o.fail("shape", "KMeans: label vector has the wrong length");
        for (size_t l : deg.labels) if (l >= (size_t)c.ncomp) { o.fail("label-range", "KMeans on duplicated points: label out of range"); break; }
      }
    }
    sim_result sr; sim_end_run(&sr);
    fill_outcome_from_sim(o, sr, 0);
    h.str(o.cls);
    o.hash = h.h;
    o.sched_sig = p.getu("data.seed");
    return o;
  }
  int minimise_budget(const std::string &cls) override { return cls.compare(0, 15, "non-termination") == 0 ? 5 : 100; }  // every rerun of a hang costs a full budget
  static size_t a_size(const std::vector<double> &v) { return v.size(); }

  std::vector<Plan> shrink(const Plan &p) override {
    std::vector<Plan> out;
    auto with = [&](const char *k, long long v) { Plan q = p; q.seti(k, v); out.push_back(q); };
    long long n = p.geti("rows"), pp = p.geti("cols"), nc = p.geti("ncomp");
    if (p.geti("machine.nproc") > 1) with("machine.nproc", 1);
    if (p.geti("perturb_k")) with("perturb_k", 0);
    if (p.geti("scaling") != 0) with("scaling", 0);
    for (long long v : {n / 2, n - 1}) if (v >= 2 && v < n && !(p.geti("routine") == T_KMEANS && v < nc)) with("rows", v);   // k-means: never more clusters than objects
    for (long long v : {(long long)1, pp - 1}) if (v >= 1 && v < pp) with("cols", v);
    for (long long v : {(long long)1, nc - 1}) if (v >= 1 && v < nc) with("ncomp", v);
    if (p.geti("ycols") > 1) with("ycols", 1);
    if (p.geti("blocks", 2) > 2) with("blocks", 2);
    return out;
  }
};

int main(int argc, char **argv) { HLive h; return harness_main(h, argc, argv); }
