#!/bin/bash
# Confirm a candidate breaking change (patch.diff + demo/) produced in /tmp/seed-<ID> in a fresh scratch worktree:
# demo passes without the change, library builds and the test binaries pass with it, demo fails with it;
# then run our quick check against the changed tree.  Prints a summary; the worktree is removed afterwards.
# usage: tools/verify_seeded.sh <ID> [source dir, default /tmp/seed-<ID>] [check budget seconds]
ID=$1; SRC=${2:-/tmp/seed-$ID}; BUD=${3:-20}
PROP=${ID%%-*}
WT=/dev/shm/vs-$ID
git -C /repo worktree remove --force $WT >/dev/null 2>&1
git -C /repo worktree add --detach $WT HEAD >/dev/null 2>&1 || { echo "cannot create worktree"; exit 2; }
trap 'git -C /repo worktree remove --force $WT >/dev/null 2>&1' EXIT
cp -r $SRC/demo $WT/demo
build() { (cd $WT && cmake -G Ninja -S . -B _b -DCMAKE_BUILD_TYPE=RelWithDebInfo -DCMAKE_INSTALL_PREFIX=$WT/_inst >/dev/null 2>&1 && cmake --build _b >/dev/null 2>&1); }
rundemo() { (cd $WT/demo && timeout 300 bash ./run.sh >$WT/demo.out 2>&1; echo $?); }
build || { echo "RESULT $ID: unpatched build failed"; exit 2; }
d0=$(rundemo)
git -C $WT apply $SRC/patch.diff || { echo "RESULT $ID: patch does not apply"; exit 2; }
build || { echo "RESULT $ID: patched build FAILED"; exit 2; }
d1=$(rundemo)
tail -3 $WT/demo.out | cut -c1-200
fails=""
if [ "${SKIP_TESTS:-0}" != 1 ]; then
  cd $WT/_b/src/tests
  fails=$(ls test* | grep -v '\.' | grep -v '^testica$' | xargs -P 6 -I{} sh -c 'LD_LIBRARY_PATH=.. timeout 1800 ./{} >/dev/null 2>&1 || echo {}' | tr '\n' ' ')
  # load-sensitive binaries: re-run failures alone
  still=""; for t in $fails; do LD_LIBRARY_PATH=.. timeout 1800 ./$t >/dev/null 2>&1 || still="$still $t"; done; fails=$still
fi
cd /verif
out=$(REPO=$WT VERIF_BUDGET_S=$BUD ./check $PROP quick 2>&1); rc=$?
echo "$out" | grep -E "^VIOLATION|^KNOWN|^SIMULATOR" | head -3 | cut -c1-260
echo "$out" | tail -1 | cut -c1-200
echo "RESULT $ID: demo_without=$d0 demo_with=$d1 failing_tests=[${fails}] check_rc=$rc"
